"""Minimal stand-in for the `filelock` package (absent offline) so that the repository's own
SQLite equivalence tests can run under the monitors. Single process: a no-op context manager."""


class FileLock:
    def __init__(self, *a, **k):
        pass

    def __enter__(self):
        return self

    def __exit__(self, *a):
        return False

    def acquire(self, *a, **k):
        return self

    def release(self, *a, **k):
        pass
