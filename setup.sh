#!/bin/sh
# Installs the runtime-contract libraries (icontract, deal) beside the repository's interpreter,
# offline, into the git-ignored /verif/.deps.  Idempotent; safe under parallel invocation.
set -e
HERE="$(cd "$(dirname "$0")" && pwd)"
DEPS="$HERE/.deps"
if [ -f "$DEPS/.ok" ]; then exit 0; fi
LOCK="$HERE/.deps.lock"
i=0
while ! mkdir "$LOCK" 2>/dev/null; do
  i=$((i+1)); [ $i -gt 600 ] && { echo "setup: lock timeout" >&2; exit 3; }
  sleep 0.2
  [ -f "$DEPS/.ok" ] && exit 0
done
trap 'rmdir "$LOCK" 2>/dev/null || true' EXIT
if [ ! -f "$DEPS/.ok" ]; then
  rm -rf "$DEPS"; mkdir -p "$DEPS"
  PIP_NO_INDEX=1 /venv/bin/python -m pip install -q --no-index --find-links /opt/veriftools/wheels \
      --target "$DEPS" icontract deal >/dev/null 2>&1 || {
        echo "setup: pip install of icontract/deal failed (contracts will be inconclusive)" >&2; }
  touch "$DEPS/.ok"
fi
exit 0
