#!/venv/bin/python
"""Development aid: run all registered quick (or thorough) checks for several VERIF_SEED values in parallel."""
import json, os, subprocess, sys, concurrent.futures as cf
tier = sys.argv[1] if len(sys.argv) > 1 else "quick"
seeds = [int(x) for x in (sys.argv[2].split(",") if len(sys.argv) > 2 else ["0", "1", "2", "3"])]
props = sys.argv[3].split(",") if len(sys.argv) > 3 else [c["property_id"] for c in json.load(open("/verif/MANIFEST.json"))["checks"]]
def one(ps):
    p, s = ps
    env = dict(os.environ, VERIF_SEED=str(s), PYTHONHASHSEED="0")
    r = subprocess.run(["/venv/bin/python", "-B", "/verif/bin/check.py", p, "--tier", tier], env=env, capture_output=True, text=True, timeout=3600)
    lines = [l for l in r.stdout.splitlines() if not l.startswith("KNOWN-FINDING")]
    return p, s, r.returncode, lines[-14:]
with cf.ThreadPoolExecutor(max_workers=int(os.environ.get("JOBS", "12"))) as ex:
    for p, s, rc, tail in ex.map(one, [(p, s) for s in seeds for p in props]):
        print(f"{p} seed={s} exit={rc}  {tail[-1] if tail else ''}")
        if rc != 0:
            for l in tail[:-1]:
                print("     " + l[:260])
