#!/venv/bin/python
"""Re-validates every kept seeded change against the current /repo and the current checks:
   for each /verif/seeded/<id>/ : scratch worktree of /repo HEAD under /tmp, apply patch.diff there, pinned 64 tests,
   demo with / without the change; run the checks listed in meta.json["caught_by"] (quick tier) pointed at the worktree
   (PDT_REPO_SRC), remove the worktree.  Updates meta.json["revalidated"].
   usage: reverify_seeds.py [S-C01,S-C02,...]"""
import glob, json, os, subprocess, sys, time

only = set(sys.argv[1].split(",")) if len(sys.argv) > 1 else None


def sh(cmd, **kw):
    return subprocess.run(cmd, shell=True, capture_output=True, text=True, **kw)


head = sh("git -C /repo rev-parse --short HEAD").stdout.strip()
for d in sorted(glob.glob("/verif/seeded/*/")):
    sid = os.path.basename(d.rstrip("/"))
    if only and sid not in only:
        continue
    meta = json.load(open(d + "meta.json"))
    wt = f"/tmp/pdt-reverify-{sid}"
    sh(f"git -C /repo worktree remove --force {wt}")
    r = sh(f"git -C /repo worktree add --detach {wt} HEAD")
    rec = {"repo_head": head, "date": time.strftime("%Y-%m-%d")}
    try:
        ap = sh(f"cd {wt} && git apply {d}patch.diff")
        if ap.returncode != 0:
            ap = sh(f"cd {wt} && git apply --3way {d}patch.diff")
        rec["patch_applies_to_head"] = ap.returncode == 0
        if ap.returncode == 0:
            t = sh(f"sh /verif/bin/baseline.sh {wt}")
            rec["pinned_tests_pass_with_change"] = t.returncode == 0 and "64/64" in t.stdout
            env = f"PYTHONPATH={wt}/src PYTHONDONTWRITEBYTECODE=1"
            if os.path.exists(d + "demo.py"):
                sh(f"cp {d}demo.py {wt}/demo.py")
                rec["demo_exit_with_change"] = sh(f"cd {wt} && {env} /venv/bin/python demo.py", timeout=600).returncode
                sh(f"cd {wt} && git diff HEAD -- src > /tmp/pdt-reverify-{sid}.diff && git checkout HEAD -- src")
                rec["demo_exit_without_change"] = sh(f"cd {wt} && {env} /venv/bin/python demo.py", timeout=600).returncode
                sh(f"cd {wt} && git apply /tmp/pdt-reverify-{sid}.diff")
            # the checks, pointed at the scratch worktree (PDT_REPO_SRC) so that /repo stays untouched; the first
            # validation of every seed (intake_seed.py) applied the patch to /repo itself
            res = {}
            for c in meta.get("caught_by") or [meta["property"]]:
                p = subprocess.run(["/venv/bin/python", "-B", "/verif/bin/check.py", c, "--tier", "quick"], capture_output=True, text=True,
                                   env=dict(os.environ, VERIF_SEED="0", PYTHONHASHSEED="0", PDT_REPO_SRC=wt + "/src"), timeout=3600)
                lines = [l for l in p.stdout.splitlines() if not l.startswith("KNOWN-FINDING")]
                res[c] = {"exit": p.returncode, "first_violation": next((l.strip()[:240] for l in lines if l.startswith("   [")), "")}
            rec["checks"] = res
            rec["caught_by"] = [c for c, v in res.items() if v["exit"] == 1]
            rec["how"] = "scratch worktree of /repo HEAD + patch, checks run with PDT_REPO_SRC=<worktree>/src"
    finally:
        sh(f"git -C /repo worktree remove --force {wt}")
        sh(f"rm -f /tmp/pdt-reverify-{sid}.diff")
    meta["revalidated"] = rec
    # evidence in the evidence directory is rewritten by these runs: restore it afterwards from git
    json.dump(meta, open(d + "meta.json", "w"), indent=1)
    print(sid, json.dumps({k: v for k, v in rec.items() if k != "checks"}), flush=True)
sh("git -C /verif checkout -- evidence")
