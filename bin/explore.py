#!/venv/bin/python -B
"""Development aid: run a generator for N seeds and aggregate findings."""
import os, sys, time, collections, json, traceback
os.environ.setdefault("PDT_VERIF", "1")
sys.path.insert(0, os.path.dirname(os.path.dirname(os.path.abspath(__file__))))
from pdtverif import env
env.boot()
from pdtverif import monitors as M, gen, runner
M.install_all()
fam = sys.argv[1]; n = int(sys.argv[2]); start = int(sys.argv[3]) if len(sys.argv) > 3 else 0
g = getattr(gen, "gen_" + fam)
agg = collections.Counter(); ex = {}
t0 = time.time(); steps = 0; judged = 0; excl = collections.Counter(); refused = collections.Counter()
cache = {}
for s in (range(start, start + n) if not ({"-s","-p"} & set(sys.argv)) else []):
    try:
        p = g(s)
    except Exception as e:
        agg[("GENFAIL", type(e).__name__ + str(e)[:80])] += 1
        ex.setdefault(("GENFAIL", type(e).__name__ + str(e)[:80]), (s, traceback.format_exc()[-600:]))
        continue
    steps += len(p["steps"])
    try:
        o = runner.run_program(p, be_cache=cache)
    except Exception as e:
        agg[("RUNFAIL", type(e).__name__ + str(e)[:80])] += 1
        ex.setdefault(("RUNFAIL", type(e).__name__ + str(e)[:80]), (s, traceback.format_exc()[-900:]))
        continue
    judged += o.probes_judged
    for b, r in o.excluded.items(): excl[(b, r)] += 1
    for b, r in o.refused.items(): refused[(b, r[1])] += 1
    for f in o.findings:
        import re
        key = (f.kind, f.verb, f.exc, re.sub(r"\d{6,}", "N", re.sub(r"[-+]?\d+(\.\d+)?", "#", f.detail))[:110])
        agg[key] += 1
        ex.setdefault(key, (s, f.brief()))
print(f"{n} programs, {steps} steps, {judged} probes judged, {time.time()-t0:.1f}s")
print("excluded:", dict(excl)); print("refused:", dict(refused))
for k, c in agg.most_common(60):
    print(c, k, "  e.g. seed", ex[k][0])
if "-s" in sys.argv:
    # shrink the first finding of the given seed whose kind starts with the given prefix
    from pdtverif import render, shrink
    sd = int(sys.argv[sys.argv.index("-s") + 1]); pref = sys.argv[sys.argv.index("-s") + 2]
    p = g(sd); o = runner.run_program(p)
    f0 = next(f for f in o.findings if f.kind.startswith(pref))
    def still(q):
        oo = runner.run_program(q)
        return any(f.kind == f0.kind and f.exc == f0.exc for f in oo.findings)
    q, runs = shrink.shrink(p, still)
    print(f"--- shrunk in {runs} runs"); print(render.program(q)); oo = runner.run_program(q)
    for f in oo.findings: print(f.brief())
    print("excluded", oo.excluded, "refused", oo.refused)
    sys.exit(0)
if "-p" in sys.argv:
    from pdtverif import render
    sd = int(sys.argv[sys.argv.index("-p") + 1])
    p = g(sd); print(render.program(p)); o = runner.run_program(p)
    for f in o.findings: print(f.brief())
    print("excluded", o.excluded, "refused", o.refused, "rejected", o.rejected)
if "-v" in sys.argv:
    for k in ex: print(ex[k])
