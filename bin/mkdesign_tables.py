#!/venv/bin/python
"""Regenerates the tables of DESIGN.md sections 10.4 (repaired defects) and 10.5 (known findings) from
/verif/known_findings.jsonl.  The prose around the tables is left alone."""

import json
import re
import sys

ROOT = "/verif"


def main():
    rows = [json.loads(line) for line in open(f"{ROOT}/known_findings.jsonl") if line.strip()]
    fixed = [r for r in rows if r["status"] == "fixed"]
    known = [r for r in rows if r["status"] == "known"]
    t_fixed = ["| id | property | commit | title | what failed |", "|---|---|---|---|---|"]
    for r in fixed:
        title = r.get("title", "").removeprefix("fix: ")
        t_fixed.append(f"| {r['id']} | {', '.join(r['property'])} | `{r['commit']}` | {title} | {r['what']} |")
    t_known = ["| id | properties | backend | feature | what |", "|---|---|---|---|---|"]
    for r in known:
        be = r.get("backend")
        be = "/".join(be) if isinstance(be, list) else (be or "any")
        t_known.append(f"| {r['id']} | {', '.join(r['property'])} | {be} | `{r['feature']}` | {r['what']} |")
    s = open(f"{ROOT}/DESIGN.md").read()

    def replace_table(s, heading_re, table):
        m = re.search(heading_re, s)
        assert m, heading_re
        start = s.index("| id |", m.end())
        end = start
        for line in s[start:].splitlines(keepends=True):
            if not line.startswith("|"):
                break
            end += len(line)
        return s[:start] + "\n".join(table) + "\n" + s[end:]

    s = replace_table(s, r"### 10\.4 [^\n]*\n", t_fixed)
    s = replace_table(s, r"### 10\.5 [^\n]*\n", t_known)
    open(f"{ROOT}/DESIGN.md", "w").write(s)
    print(f"DESIGN.md: {len(fixed)} fixed, {len(known)} known")


if __name__ == "__main__":
    sys.exit(main())
