#!/venv/bin/python
"""Regenerates the tables of DESIGN.md sections 10.4 (repaired defects) and 10.5 (known findings) from
/verif/known_findings.jsonl.  The prose around the tables is left alone."""

import json
import re
import sys

ROOT = "/verif"


def main():
    rows = [json.loads(line) for line in open(f"{ROOT}/known_findings.jsonl") if line.strip()]
    fixed = [r for r in rows if r["status"] == "fixed"]
    known = [r for r in rows if r["status"] == "known"]
    t_fixed = ["| id | property | commit | title | what failed |", "|---|---|---|---|---|"]
    for r in fixed:
        title = r.get("title", "").removeprefix("fix: ")
        t_fixed.append(f"| {r['id']} | {', '.join(r['property'])} | `{r['commit']}` | {title} | {r['what']} |")
    t_known = ["| id | properties | backend | feature | what |", "|---|---|---|---|---|"]
    for r in known:
        be = r.get("backend")
        be = "/".join(be) if isinstance(be, list) else (be or "any")
        t_known.append(f"| {r['id']} | {', '.join(r['property'])} | {be} | `{r['feature']}` | {r['what']} |")
    s = open(f"{ROOT}/DESIGN.md").read()

    def replace_table(s, heading_re, table):
        m = re.search(heading_re, s)
        assert m, heading_re
        start = s.index("| id |", m.end())
        end = start
        for line in s[start:].splitlines(keepends=True):
            if not line.startswith("|"):
                break
            end += len(line)
        return s[:start] + "\n".join(table) + "\n" + s[end:]

    s = replace_table(s, r"### 10\.4 [^\n]*\n", t_fixed)
    s = replace_table(s, r"### 10\.5 [^\n]*\n", t_known)
    # 10.7: independent seeded changes
    import glob
    import os

    t_seed = ["| seed | property | change | caught by (quick tier) | first missed by |", "|---|---|---|---|---|"]
    n_seed = 0
    for d in sorted(glob.glob(f"{ROOT}/seeded/*/"), key=lambda x: (os.path.basename(x.rstrip("/")).split("-")[0], x)):
        mp = d + "meta.json"
        if not os.path.exists(mp):
            continue
        m = json.load(open(mp))
        title = m.get("title")
        if not title and os.path.exists(d + "REPORT.md"):
            first = next((ln for ln in open(d + "REPORT.md") if ln.strip()), "")
            title = first.lstrip("# ").strip()
        title = re.sub(r"^(Seeded regression|Injected regression|Seeded change)[^:]*:\s*", "", title or "")
        title = re.sub(r"^(S2?-C\d+ \(independent sub-agent\) \S+ |C\d+ seeded change: |C\d+ regression: |S2-C\d+: )", "", title)[:140]
        caught = m.get("caught_by") or []
        t_seed.append(f"| {m['seed']} | {m['property']} | {title} | {', '.join(caught) or '**none**'} | {', '.join(m.get('first_missed_by', [])) or '-'} |")
        n_seed += 1
    m7 = re.search(r"\| seed \| property \| change \|[^\n]*\n", s)
    if m7:
        start = m7.start()
        end = start
        for line in s[start:].splitlines(keepends=True):
            if not line.startswith("|"):
                break
            end += len(line)
        s = s[:start] + "\n".join(t_seed) + "\n" + s[end:]
    open(f"{ROOT}/DESIGN.md", "w").write(s)
    print(f"DESIGN.md: {len(fixed)} fixed, {len(known)} known, {n_seed} seeds")


if __name__ == "__main__":
    sys.exit(main())
