#!/venv/bin/python
"""Applies each seeded break to a scratch copy of the repository (outside /repo and /verif), checks that it
still passes the 64 baseline tests, points the owning check at it (PDT_REPO_SRC) and requires exit 1."""
import concurrent.futures as cf, json, os, shutil, subprocess, sys, tempfile, time
sys.path.insert(0, "/verif/mutants")
from mutants import MUTANTS
only = set(sys.argv[1].split(",")) if len(sys.argv) > 1 and sys.argv[1] != "all" else None
run_baseline = "--baseline" in sys.argv
tier = "quick"

def one(m):
    mid, prop, path, old, new, desc = m
    tmp = tempfile.mkdtemp(prefix=f"pdt-mut-{mid}-")
    try:
        subprocess.run(["rsync", "-a", "--exclude", ".git", "--exclude", "__pycache__", "/repo/", tmp + "/"], check=True)
        f = os.path.join(tmp, path)
        s = open(f).read()
        if old not in s:
            return mid, prop, desc, "PATCH-DOES-NOT-APPLY", None, 0
        open(f, "w").write(s.replace(old, new, 1))
        base = None
        if run_baseline:
            r = subprocess.run(["/venv/bin/python", "-m", "pytest", "-q", "-p", "no:cacheprovider", "--timeout=900", "--continue-on-collection-errors",
                                "tests/test_polars_table.py", "tests/test_core.py", "tests/test_version.py"], cwd=tmp, capture_output=True, text=True,
                               env=dict(os.environ, PYTHONPATH=tmp + "/src", PYTHONDONTWRITEBYTECODE="1"))
            tail = r.stdout.strip().splitlines()[-1] if r.stdout.strip() else ""
            base = tail
        t0 = time.time()
        env = dict(os.environ, PDT_REPO_SRC=tmp + "/src", PYTHONHASHSEED="0", VERIF_SEED="0")
        r = subprocess.run(["/venv/bin/python", "-B", "/verif/bin/check.py", prop, "--tier", tier], env=env, capture_output=True, text=True, timeout=1800)
        viol = [l for l in r.stdout.splitlines() if l.startswith("   [")][:1]
        return mid, prop, desc, r.returncode, (viol[0][:160] if viol else r.stdout.strip().splitlines()[-1][:160] if r.stdout.strip() else r.stderr[-200:]), round(time.time() - t0), base
    finally:
        shutil.rmtree(tmp, ignore_errors=True)

ms = [m for m in MUTANTS if (only is None or m[0] in only or m[1] in only)]
res = []
with cf.ThreadPoolExecutor(max_workers=int(os.environ.get("JOBS", "10"))) as ex:
    for r in ex.map(one, ms):
        res.append(r)
        print(*r, sep=" | ", flush=True)
caught = sum(1 for r in res if r[3] == 1)
print(f"caught {caught}/{len(res)}")
json.dump([list(r) for r in res], open("/verif/mutants/last_selftest.json", "w"), indent=1)
