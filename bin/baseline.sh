#!/bin/sh
# Runs the repository's pinned baseline (guard OFF) and checks that all 64 stable tests pass.
#   baseline.sh [dir]      dir: a checkout of the repository (default /repo); its src/ is put first on PYTHONPATH
D=${1:-/repo}
cd "$D" && env -u PDT_VERIF PYTHONPATH="$D/src" PYTHONDONTWRITEBYTECODE=1 /venv/bin/python -m pytest -ra -q -p no:cacheprovider --timeout=900 \
   --continue-on-collection-errors --junitxml=/tmp/pdt_baseline_$$.xml >/tmp/pdt_baseline_$$.log 2>&1
/venv/bin/python - "$$" <<'PY'
import json,sys,xml.etree.ElementTree as ET
pid=sys.argv[1]
base=json.load(open('/root/.vp/BASELINE.json'))
root=ET.parse(f'/tmp/pdt_baseline_{pid}.xml').getroot()
ok=set()
for tc in root.iter('testcase'):
    if not any(ch.tag in('failure','error','skipped') for ch in tc):
        ok.add(tc.get('classname')+'::'+tc.get('name'))
missing=[t for t in base['stable_pass'] if t not in ok]
print(f"baseline: {len(base['stable_pass'])-len(missing)}/{len(base['stable_pass'])} stable tests pass")
for m in missing: print("  MISSING", m)
sys.exit(1 if missing else 0)
PY
rc=$?
rm -f /tmp/pdt_baseline_$$.xml /tmp/pdt_baseline_$$.log
exit $rc
