#!/venv/bin/python
"""Intake of an independently written breaking change (sub-agent worktree):
   intake_seed.py <seed-id> <worktree> <property> [check1,check2,...]
 1. saves patch.diff / demo.py / REPORT.md under /verif/seeded/<seed-id>/
 2. confirms in the worktree: pinned tests pass with the change; demo fails with it and passes without it
 3. applies the patch to /repo (git apply), runs the given checks (default: the property's own check) there,
    and undoes it straight afterwards (git checkout -- .)
 4. writes meta.json
"""
import json, os, subprocess, sys, time
sid, wt, prop = sys.argv[1:4]
checks = sys.argv[4].split(",") if len(sys.argv) > 4 else [prop]
dst = f"/verif/seeded/{sid}"
os.makedirs(dst, exist_ok=True)
def sh(cmd, **kw):
    return subprocess.run(cmd, shell=True, capture_output=True, text=True, **kw)
diff = sh(f"git -C {wt} diff -- src").stdout
if not diff.strip():
    print("no diff in worktree"); sys.exit(2)
open(f"{dst}/patch.diff", "w").write(diff)
for f in ("demo.py", "REPORT.md"):
    if os.path.exists(f"{wt}/{f}"):
        open(f"{dst}/{f}", "w").write(open(f"{wt}/{f}").read())
env = f"PYTHONPATH={wt}/src PYTHONDONTWRITEBYTECODE=1"
tests = sh(f"sh /verif/bin/baseline.sh {wt}")
tests_ok = tests.returncode == 0 and "64/64" in tests.stdout
demo_with = sh(f"cd {wt} && {env} /venv/bin/python demo.py")
# (no `git stash`: the stash is shared between all worktrees of a repository)
sh(f"cd {wt} && git apply -R {dst}/patch.diff")
demo_without = sh(f"cd {wt} && {env} /venv/bin/python demo.py")
sh(f"cd {wt} && git apply {dst}/patch.diff")
print("tests:", tests.stdout.strip().splitlines()[0] if tests.stdout.strip() else tests.stderr[-200:])
print("demo with change: exit", demo_with.returncode, "| without: exit", demo_without.returncode)
# run the checks against /repo with the patch applied
assert sh("git -C /repo status --porcelain").stdout.strip() == "", "/repo is not clean"
ap = sh(f"git -C /repo apply {dst}/patch.diff")
results = {}
try:
    if ap.returncode != 0:
        print("patch does not apply to /repo:", ap.stderr[:300])
    else:
        procs = {}
        for c in checks:
            procs[c] = subprocess.Popen(["/venv/bin/python", "-B", "/verif/bin/check.py", c, "--tier", "quick"], stdout=subprocess.PIPE, stderr=subprocess.STDOUT, text=True,
                                        env=dict(os.environ, VERIF_SEED="0", PYTHONHASHSEED="0"))
        for c, p in procs.items():
            out, _ = p.communicate(timeout=3600)
            lines = [l for l in out.splitlines() if not l.startswith("KNOWN-FINDING")]
            first = next((l for l in lines if l.startswith("   [")), "")
            results[c] = {"exit": p.returncode, "first_violation": first.strip()[:300], "last": lines[-1][:200] if lines else ""}
            print(f"check {c}: exit {p.returncode}  {first.strip()[:200] or (lines[-1][:200] if lines else '')}")
finally:
    sh("git -C /repo checkout -- .")
assert sh("git -C /repo status --porcelain").stdout.strip() == "", "/repo not restored"
meta = {
    "seed": sid, "property": prop, "source": "independent sub-agent (given only the property text and a scratch worktree)",
    "needs_to_manifest": "see REPORT.md",
    "confirmed": {"pinned_tests_pass_with_change": bool(tests_ok), "demo_exit_with_change": demo_with.returncode, "demo_exit_without_change": demo_without.returncode},
    "ran": [f"git -C /repo apply {dst}/patch.diff; /venv/bin/python -B /verif/bin/check.py <check> --tier quick; git -C /repo checkout -- ."],
    "checks": results,
    "caught_by": [c for c, r in results.items() if r["exit"] == 1],
    "date": time.strftime("%Y-%m-%d"),
}
json.dump(meta, open(f"{dst}/meta.json", "w"), indent=1)
print("caught by:", meta["caught_by"])
