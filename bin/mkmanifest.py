#!/venv/bin/python
"""Regenerates /verif/MANIFEST.json from the table below (kept valid at all times)."""
import json, os, sys
HERE = os.path.dirname(os.path.dirname(os.path.abspath(__file__)))
props = [json.loads(l) for l in open(os.path.join(HERE, "properties.jsonl"))]

ORACLE = "an oracle observing executions of the real code: "
CHECKS = {
 "C01": ("differential + reference-model monitor (Polars vs SQLite vs REF) over generated pipelines, SAN invariants on", "5 C01",
         "Every generated pipeline runs through the public pipe API on a Polars-backed and a SQLite-backed table while SAN/SQL/INT monitors watch; each exported frame is compared with the independent row-by-row reference model in the backend's mode, SQL refusals must be SubqueryError/NotSupportedError. Exploration: held on the executions produced (counts, shapes and verbs seen are in the evidence)."),
 "C02": ("reference-model monitor (REF) on row-verb pipelines, both backends", "5 C02",
         "Row-level verb pipelines are executed on both backends and every intermediate table is compared with REF (names, order, rows; row sequence on Polars). Exploration."),
 "C04": ("reference-model monitor (REF) on group_by/summarize pipelines, both backends", "5 C04",
         "Summarize pipelines with all key kinds, aggregates, filter= and surrounding verbs are executed on both backends; cardinality, column order and every aggregate cell are compared with REF. Exploration."),
 "C05": ("reference-model monitor (REF) on arrange/window pipelines; sequence oracle", "5 C05",
         "Arrange chains with all marker combinations and window functions in all positions are executed; Polars is judged on the exact row sequence, SQLite on the sequence when the ORDER BY in force is total, window cells per REF. Exploration."),
 "C06": ("reference-model monitor (nested-loop join in REF) + naming-rule predicate + reachability probes", "5 C06",
         "Joins of all kinds/predicates/name-collision configurations are executed on both backends; rows vs REF's nested-loop join, names vs the documented suffix rule, every input column probed through its original reference. Exploration."),
 "C07": ("reference-model monitor (bag/set union by name in REF), both backends", "5 C07",
         "Unions with permuted/hidden columns, duplicates, empties and chains are executed on both backends and compared with REF. Exploration."),
 "C10": ("sanitizer invariants (structural fingerprints before/after every verb and export), statement monitor, repeated export", "3.3 / 5 C10",
         "SAN fingerprints every pre-existing table and argument expression around every verb application (I4,I5,I7,I14), sys.monitoring checks that backends receive a clone (I10), the SQLAlchemy/sqlite3 monitors check one read-only SELECT per export (I11), every export is repeated (I13), and shared-vs-fresh histories are compared. Exploration."),
 "C11": ("sanitizer invariants on table metadata (I1-I3, I8, I12) at every verb application and export", "3.3 / 5 C11",
         "On every verb application the incremental cache is compared with Cache.from_ast and checked for internal consistency; on every export columns()/iteration/len/in/dir are compared with the frame, and SqlImpl.export's positional pairing is read from its frame. Exploration."),
 "C12": ("sanitizer invariant I9 (static dtype vs exported schema) on every export + type sweep", "3.3 / 5 C12",
         "On every export of every workload the static dtype of each visible column is compared with the exported polars dtype (exact on Polars, numeric family on SQLite; only all-null columns may be Null). Exploration."),
}
CHECKS.update(json.load(open(os.path.join(HERE, "bin", "manifest_extra.json"))) if os.path.exists(os.path.join(HERE, "bin", "manifest_extra.json")) else {})

NOTE = ("Trusted base: the reference interpreter pdtverif/ref.py (validated against both backends and the docstring tables), Polars 1.44 and SQLite 3.40 "
        "as execution engines, the harness' generators. Bounded programs (<=10 verbs, depth<=3, <=220 rows). PostgreSQL/MSSQL are only compiled, never executed.")
checks = []
for p in props:
    pid = p["id"]
    if pid not in CHECKS:
        continue
    tech, ref, text = CHECKS[pid][:3]
    checks.append({
        "property_id": pid,
        "quick_cmd": f"/venv/bin/python -B /verif/bin/check.py {pid} --tier quick",
        "thorough_cmd": f"/venv/bin/python -B /verif/bin/check.py {pid} --tier thorough",
        "evidence_file": f"/verif/evidence/{pid}.json",
        "replay_cmd_template": f"/venv/bin/python -B /verif/bin/check.py {pid} --replay {{path}}",
        "engine": "pdtverif",
        "level_claimed": {"category": "exploration", "text": text, "design_ref": "DESIGN.md section " + ref},
        "level_note": NOTE,
        "technique": "runtime monitoring: " + tech + " real executions",
    })
m = {
 "version": 1,
 "setup_cmd": "sh /verif/setup.sh",
 "hooks": {"guard": "PDT_VERIF",
           "enable": "checks start `/venv/bin/python -B` with /repo/src first on sys.path and PDT_VERIF=1; all monitors attach from the harness process (Pipeable.__call__ wrapper, sys.monitoring local events on code objects, SQLAlchemy cursor events, sqlite3 authorizer, icontract contracts); no source hook was needed",
           "baseline_off_cmd": "cd /repo && /venv/bin/python -m pytest -ra -q -p no:cacheprovider --timeout=900 --continue-on-collection-errors",
           "source_commits": [], "add_only": True},
 "engines": [{"name": "pdtverif", "path": "/verif/pdtverif", "serves_properties": [c["property_id"] for c in checks],
              "kind_free_text": "runtime monitors (sanitizer invariants, boundary recorder, SQL statement monitor, sys.monitoring probes) + independent reference interpreter + seeded workload generators"}],
 "checks": checks,
 "notes": "Verdicts are three-valued: exit 0 held on what was observed, exit 1 VIOLATION, exit 2 INCONCLUSIVE (deciding monitor saw nothing / worker died). Known findings: /verif/known_findings.jsonl.",
 "not_applicable": [{"property_id": p["id"], "reason": "check under construction (runtime monitoring applies; see DESIGN.md section 5)"} for p in props if p["id"] not in CHECKS],
}
json.dump(m, open(os.path.join(HERE, "MANIFEST.json"), "w"), indent=1)
print("checks:", [c["property_id"] for c in checks])
