#!/bin/sh
# Runs every registered check's thorough tier one after the other (each one shards over the cores itself).
cd "$(dirname "$0")/.."
for p in $(/venv/bin/python -c "import json;print(' '.join(c['property_id'] for c in json.load(open('MANIFEST.json'))['checks']))"); do
  s=$(date +%s)
  /venv/bin/python -B bin/check.py $p --tier thorough > /tmp/thorough_$p.$$.log 2>&1
  rc=$?
  echo "$p exit=$rc $(( $(date +%s) - s ))s  $(grep -v '^KNOWN-FINDING' /tmp/thorough_$p.$$.log | tail -1)"
  if [ $rc -ne 0 ]; then grep -v '^KNOWN-FINDING' /tmp/thorough_$p.$$.log | tail -25; fi
  rm -f /tmp/thorough_$p.$$.log
done
