#!/bin/sh
# Runs the repository's own Polars-vs-SQLite equivalence tests offline (filelock stub); prints summary.
cd /repo && PYTHONPATH=/verif/stubs:$PYTHONPATH /venv/bin/python -m pytest -q -p no:cacheprovider --timeout=900 \
   --sqlite -k "polars-sqlite or test_sql_table" "$@" 2>&1 | tail -15
