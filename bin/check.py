#!/venv/bin/python -B
"""Entry point of every check:  check.py <ID> --tier quick|thorough [--seed N] [--replay path]

exit 0  property held on everything explored (KNOWN-FINDING lines for listed, reproduced findings)
exit 1  VIOLATION property=<id> replay=<path>
exit 2  INCONCLUSIVE (a deciding monitor saw nothing / workers died) — never folded into the others
"""
import argparse
import json
import os
import sys

os.environ["PDT_VERIF"] = "1"
os.environ.setdefault("PYTHONHASHSEED", "0")
os.environ.setdefault("POLARS_MAX_THREADS", "2")
os.environ["RUST_BACKTRACE"] = "0"
sys.path.insert(0, os.path.dirname(os.path.dirname(os.path.abspath(__file__))))


def main():
    ap = argparse.ArgumentParser()
    ap.add_argument("prop")
    ap.add_argument("--tier", default=os.environ.get("VERIF_TIER", "quick"))
    ap.add_argument("--seed", type=int, default=int(os.environ.get("VERIF_SEED", "0")))
    ap.add_argument("--shard", default=None)
    ap.add_argument("--partial", default=None)
    ap.add_argument("--replay", default=None)
    ap.add_argument("--shards", type=int, default=int(os.environ.get("VERIF_SHARDS", "14")))
    a = ap.parse_args()

    from pdtverif import env

    env.ensure_deps()
    env.boot()
    from pdtverif import harness
    from pdtverif import monitors as M

    M.install_all()
    from pdtverif.checks import registry

    mod = registry.module_for(a.prop)
    if a.replay:
        sys.exit(mod.replay(a.prop, a.replay))
    if a.tier == "thorough" and a.shard is None and getattr(mod, "SHARDED", True):
        run = harness.CheckRun(a.prop, a.tier, a.seed)
        results = harness.run_shards(a.prop, a.tier, a.seed, a.shards, timeout=mod.thorough_timeout(a.prop))
        for i, d, err in results:
            if d is None:
                run.inconclusive.append(f"shard {i}: {err}")
            else:
                run.merge_partial(d)
        run.extra["shards"] = len(results)
        sys.exit(mod.finalize(run, a.prop))
    shard = None
    if a.shard:
        i, n = a.shard.split("/")
        shard = (int(i), int(n))
    run = harness.CheckRun(a.prop, a.tier, a.seed, shard=shard)
    mod.execute(run, a.prop, shard)
    if a.partial:
        # ship the monitors' own counters with the partial result
        run.extra["shard_monitor_counts"] = {k: int(v) for k, v in M.SAN.counts.items()}
        run.extra["shard_anchor_hits"] = {k: int(v) for k, v in M.INT.hits.items()}
        run.extra["shard_sql"] = {k: int(v) for k, v in M.SQL.counts.items()}
        run.extra["shard_subquery_reasons"] = {str(k): int(v) for k, v in M.INT.subquery_reasons.items()}
        run.dump_partial(a.partial)
        sys.exit(0)
    sys.exit(mod.finalize(run, a.prop))


if __name__ == "__main__":
    main()
