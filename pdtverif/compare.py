"""Comparison of exported frames with each other and with REF tables (DESIGN section 4 rules)."""

from __future__ import annotations

import datetime as _dt
import decimal
import math

from .ref import TAINT

REL = 1e-9
ABS = 1e-9


def norm_cell(v):
    if isinstance(v, decimal.Decimal):
        return float(v)
    if isinstance(v, float) and v == 0:
        return 0.0
    return v


def frame_table(df):
    """polars.DataFrame -> (names, rows as list of tuples of python values)."""
    names = list(df.columns)
    rows = [tuple(norm_cell(v) for v in r) for r in df.rows()]
    return names, rows


def num_eq(a, b):
    if isinstance(a, bool) or isinstance(b, bool):
        return bool(a) == bool(b) if (isinstance(a, bool | int) and isinstance(b, bool | int)) else False
    if isinstance(a, int) and isinstance(b, int):
        return a == b
    try:
        fa, fb = float(a), float(b)
    except (TypeError, ValueError):
        return False
    if math.isnan(fa) or math.isnan(fb):
        return math.isnan(fa) and math.isnan(fb)
    if math.isinf(fa) or math.isinf(fb):
        return fa == fb
    return abs(fa - fb) <= ABS + REL * max(abs(fa), abs(fb))


def _parse_dt_text(s):
    try:
        return _dt.datetime.fromisoformat(s)
    except Exception:
        return None


def cell_eq(exp, act):
    """exp: REF value (may be TAINT or a tagged tuple); act: normalised actual cell."""
    if exp is TAINT:
        return True
    if isinstance(exp, tuple) and len(exp) == 2 and exp[0] == "floatstr":
        if act is None:
            return False
        try:
            # the text of a float: its digits may be spelled differently (1e+20 / 100000000000000000000.0), but it is never the
            # numeral of an integer ("3" for 3.0 is the text of an Int)
            return num_eq(exp[1], float(act)) and (not isinstance(act, str) or any(ch in act for ch in ".eEn"))
        except (TypeError, ValueError):
            return False
    if isinstance(exp, tuple) and len(exp) == 2 and exp[0] == "dtstr":
        if not isinstance(act, str):
            return False
        p = _parse_dt_text(act)
        return p is not None and p == exp[1]
    if exp is None or act is None:
        return exp is None and act is None
    if isinstance(exp, bool):
        return isinstance(act, bool | int) and bool(act) == exp and (isinstance(act, bool) or act in (0, 1))
    if isinstance(exp, int | float):
        if isinstance(act, bool):
            return False
        if isinstance(act, int | float):
            return num_eq(exp, act)
        return False
    if isinstance(exp, _dt.datetime):
        if isinstance(act, _dt.datetime):
            return act.replace(tzinfo=None) == exp
        if isinstance(act, str):
            return _parse_dt_text(act) == exp
        return False
    if isinstance(exp, _dt.date):
        if isinstance(act, _dt.datetime):
            return False
        if isinstance(act, _dt.date):
            return act == exp
        if isinstance(act, str):
            try:
                return _dt.date.fromisoformat(act) == exp
            except Exception:
                return False
        return False
    return exp == act


def _sort_key_cell(v):
    if v is TAINT:
        return (9, "")
    if v is None:
        return (0, "")
    if isinstance(v, tuple):
        v = v[1]
    if isinstance(v, bool):
        return (1, float(v))
    if isinstance(v, int | float):
        f = float(v)
        if math.isnan(f):
            return (1, float("inf"))
        # coarse bucket so that values equal within tolerance sort together
        return (1, float(f"{f:.7g}"))
    if isinstance(v, _dt.datetime):
        return (3, v.isoformat())
    if isinstance(v, _dt.date):
        return (3, v.isoformat())
    return (2, str(v))


def row_eq(exp_row, act_row):
    return len(exp_row) == len(act_row) and all(cell_eq(e, a) for e, a in zip(exp_row, act_row))


def rows_equal_ordered(exp_rows, act_rows):
    if len(exp_rows) != len(act_rows):
        return f"row count {len(act_rows)} != expected {len(exp_rows)}"
    for i, (e, a) in enumerate(zip(exp_rows, act_rows)):
        if not row_eq(e, a):
            return f"row {i}: got {a!r}, expected {e!r}"
    return None


def rows_equal_multiset(exp_rows, act_rows):
    if len(exp_rows) != len(act_rows):
        return f"row count {len(act_rows)} != expected {len(exp_rows)}"
    ncol = len(exp_rows[0]) if exp_rows else 0
    # columns holding TAINT anywhere cannot take part in a multiset comparison
    keep = [j for j in range(ncol) if not any(r[j] is TAINT for r in exp_rows)]
    e2 = [tuple(r[j] for j in keep) for r in exp_rows]
    a2 = [tuple(r[j] for j in keep) for r in act_rows]
    es = sorted(e2, key=lambda r: tuple(_sort_key_cell(v) for v in r))
    as_ = sorted(a2, key=lambda r: tuple(_sort_key_cell(v) for v in r))
    if all(row_eq(e, a) for e, a in zip(es, as_)):
        return None
    # fall back to greedy matching (float bucket boundaries)
    rest = list(as_)
    for e in es:
        for k, a in enumerate(rest):
            if row_eq(e, a):
                del rest[k]
                break
        else:
            return f"expected row {e!r} has no counterpart (unmatched actual e.g. {rest[:2]!r})"
    return None


def _round32(v):
    import struct

    try:
        return struct.unpack("f", struct.pack("f", float(v)))[0]
    except (OverflowError, struct.error):
        return v


def compare_with_ref(df, rt, mode, check_order=True, single_precision_inputs=False):
    """Compare an exported frame with a REF table. Returns (problem | None, judged_as).
    single_precision_inputs: a source table of the program has a Float32 column - a Float64 result computed from it
    (e.g. count + mean(f32)) carries single precision only, REF computes in double: floats are compared with REL 2e-6."""
    global REL
    names, rows = frame_table(df)
    if single_precision_inputs:
        old0 = REL
        REL = 2e-6
        try:
            return compare_with_ref(df, rt, mode, check_order, False)
        finally:
            REL = old0
    # a Float32 column carries single precision: compare after rounding both sides to float32 (REF computes in double)
    import polars as pl

    f32 = [j for j, n in enumerate(names) if df.schema[n] == pl.Float32]
    if f32 and names == rt.names():
        exp = [tuple((_round32(v) if (j in f32 and isinstance(v, float)) else v) for j, v in enumerate(r)) for r in rt.rows()]
        rows = [tuple((_round32(v) if (j in f32 and isinstance(v, float)) else v) for j, v in enumerate(r)) for r in rows]
        loose = True
    else:
        exp = None
        loose = False
    if loose:
        old = REL
        REL = 2e-6
        try:
            if check_order and rt.seq_ok(mode):
                return rows_equal_ordered(exp, rows), "sequence"
            return rows_equal_multiset(exp, rows), "multiset"
        finally:
            REL = old
    if names != rt.names():
        return f"column names {names} != expected {rt.names()}", "names"
    exp = rt.rows()
    if check_order and rt.seq_ok(mode):
        return rows_equal_ordered(exp, rows), "sequence"
    return rows_equal_multiset(exp, rows), "multiset"


def frames_equal(dfa, dfb, ordered, mask_cols=()):
    """Differential comparison of two real frames."""
    na, ra = frame_table(dfa)
    nb, rb = frame_table(dfb)
    if na != nb:
        return f"column names {na} != {nb}"
    keep = [j for j, n in enumerate(na) if n not in mask_cols]
    ra = [tuple(r[j] for j in keep) for r in ra]
    rb = [tuple(r[j] for j in keep) for r in rb]
    return rows_equal_ordered(ra, rb) if ordered else rows_equal_multiset(ra, rb)
