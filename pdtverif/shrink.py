"""Delta-debugging of programs: drop steps / arguments / rows / sub-expressions while the oracle still
reports a finding of the same kind. Bounded by a number of re-executions."""

from __future__ import annotations

import copy


def _rewire(p, i):
    """Remove step i (single-input verbs only): consumers of its output read its input instead."""
    st = p["steps"][i]
    if st["verb"] in ("join", "union", "transfer"):
        return None
    q = copy.deepcopy(p)
    out, inp = st["out"], st["in"]
    del q["steps"][i]

    def sub(e):
        if isinstance(e, dict):
            if e.get("k") == "col" and e.get("t") == out:
                e["t"] = inp
            for v in e.values():
                sub(v)
        elif isinstance(e, list):
            for v in e:
                sub(v)

    for s in q["steps"]:
        if s.get("in") == out:
            s["in"] = inp
        if s.get("right") == out:
            s["right"] = inp
        if s.get("ref") == out:
            s["ref"] = inp
        sub(s)
    q["probes"] = [inp if h == out else h for h in q.get("probes", [])]
    return q


def _subexprs(e, path=()):
    """Yield (path, node) of expression dict nodes inside a step."""
    if isinstance(e, dict):
        if "k" in e:
            yield path, e
        for k, v in e.items():
            yield from _subexprs(v, path + (k,))
    elif isinstance(e, list):
        for j, v in enumerate(e):
            yield from _subexprs(v, path + (j,))


def _set(obj, path, val):
    for k in path[:-1]:
        obj = obj[k]
    obj[path[-1]] = val


def candidates(p):
    n = len(p["steps"])
    # drop trailing steps first, then any step
    for i in reversed(range(n)):
        outs = {s["out"] for s in p["steps"][: i + 1]}
        _ = outs
        q = copy.deepcopy(p)
        removed = q["steps"].pop(i)
        used = any(s.get("in") == removed["out"] or s.get("right") == removed["out"] or s.get("ref") == removed["out"] for s in q["steps"])
        if not used:
            q["probes"] = [h for h in q.get("probes", []) if h != removed["out"]] or [removed["in"]]
            yield q
        else:
            r = _rewire(p, i)
            if r is not None:
                yield r
    # single probe
    if len(p.get("probes", [])) > 1:
        for h in p["probes"]:
            q = copy.deepcopy(p)
            q["probes"] = [h]
            yield q
    # fewer arguments
    for i, st in enumerate(p["steps"]):
        for key in ("kw", "preds", "by", "cols", "map", "on"):
            if key in st and len(st[key]) > 1:
                for j in range(len(st[key])):
                    q = copy.deepcopy(p)
                    del q["steps"][i][key][j]
                    yield q
    # fewer rows
    for ti, t in enumerate(p["tables"]):
        n = len(t["rows"])
        if n > 1:
            for lo, hi in ((0, n // 2), (n // 2, n)):
                q = copy.deepcopy(p)
                q["tables"][ti]["rows"] = t["rows"][lo:hi]
                yield q
        if 1 < n <= 8:
            for j in range(n):
                q = copy.deepcopy(p)
                del q["tables"][ti]["rows"][j]
                yield q
    # simpler expressions: replace a node by one of its children
    for i, st in enumerate(p["steps"]):
        for path, node in _subexprs(st):
            if not path:
                continue
            kids = []
            if node["k"] == "fn":
                kids = [a for a in node["a"] if isinstance(a, dict)]
                for key in ("pb", "arr", "flt"):
                    if node.get(key):
                        q = copy.deepcopy(p)
                        tgt = q["steps"][i]
                        for k in path:
                            tgt = tgt[k]
                        del tgt[key]
                        yield q
            elif node["k"] == "cast":
                kids = [node["e"]]
            elif node["k"] == "case":
                kids = [v for _, v in node["cases"]] + ([node["default"]] if node.get("default") else [])
            for kid in kids:
                q = copy.deepcopy(p)
                _set(q["steps"][i], path, copy.deepcopy(kid))
                yield q


def shrink(p, still_fails, budget=200):
    best = p
    runs = 0
    progress = True
    while progress and runs < budget:
        progress = False
        for q in candidates(best):
            if runs >= budget:
                break
            runs += 1
            try:
                ok = still_fails(q)
            except Exception:
                ok = False
            if ok:
                best = q
                progress = True
                break
    return best, runs
