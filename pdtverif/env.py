"""Process bootstrap: make sure the code under test is /repo's *current working tree*.

Every check starts a fresh interpreter (`-B`), puts `$PDT_REPO_SRC` (default /repo/src) first on
sys.path, and asserts that `pydiverse.transform` was really imported from there.  The guard
`PDT_VERIF=1` is what switches the monitors on (see monitors.py); with it unset nothing is patched.
"""

from __future__ import annotations

import os
import subprocess
import sys
import types
import warnings

VERIF = os.path.dirname(os.path.dirname(os.path.abspath(__file__)))
REPO_SRC = os.environ.get("PDT_REPO_SRC", "/repo/src")
DEPS = os.path.join(VERIF, ".deps")

_booted = False


def ensure_deps() -> bool:
    if not os.path.exists(os.path.join(DEPS, ".ok")):
        subprocess.run(["sh", os.path.join(VERIF, "setup.sh")], check=False)
    if DEPS not in sys.path:
        sys.path.append(DEPS)
    try:
        import icontract  # noqa: F401

        return True
    except Exception:
        return False


def boot():
    """Import the repository from the working tree and return the module."""
    global _booted
    if REPO_SRC not in sys.path[:1]:
        sys.path.insert(0, REPO_SRC)
    if VERIF not in sys.path:
        sys.path.insert(1, VERIF)
    sys.dont_write_bytecode = True
    warnings.filterwarnings("ignore")
    import pydiverse.transform as pdt

    here = os.path.realpath(pdt.__file__)
    want = os.path.realpath(os.path.join(REPO_SRC, "pydiverse", "transform", "__init__.py"))
    if here != want:
        raise SystemExit(f"INCONCLUSIVE: pydiverse.transform imported from {here}, expected {want}")
    _booted = True
    return pdt


def fake_dbapi(name: str):
    m = types.ModuleType(name)
    m.paramstyle = "pyformat"
    m.__version__ = "2.9.9"
    m.version = "5.0.0"
    m.apilevel = "2.0"
    m.threadsafety = 1

    class Error(Exception):
        pass

    m.Error = Error
    return m


_engines: dict = {}


def offline_engine(dialect: str):
    """Engines that can *compile* (not execute) for dialects without a driver in this sandbox."""
    import sqlalchemy as sqa

    if dialect in _engines:
        return _engines[dialect]
    url = {"postgres": "postgresql+pg8000://", "mssql": "mssql+pymssql://"}[dialect]
    eng = sqa.create_engine(url, module=fake_dbapi("fake_" + dialect))
    _engines[dialect] = eng
    return eng


def sqlite_engine():
    """Fresh in-memory SQLite engine with LIKE made case sensitive (the pragma the repository's own
    NonStandardWarning points to) and one shared connection (StaticPool) so that tables persist."""
    import sqlalchemy as sqa
    from sqlalchemy.pool import StaticPool

    eng = sqa.create_engine("sqlite://", poolclass=StaticPool, connect_args={"check_same_thread": False})

    @sqa.event.listens_for(eng, "connect")
    def _pragma(dbapi_conn, _rec):
        cur = dbapi_conn.cursor()
        cur.execute("PRAGMA case_sensitive_like = ON")
        cur.close()

    return eng
