"""eval_aligned workload (Polars): `eval_aligned(<expression over another table / a Series>)` must mean what the same
expression means when the other table's columns are ordinary columns of the table itself.

Side A: an ordinary program `T0 [>> group_by] >> verb(...)` over one table; it goes through the runner, so its export
        is judged against REF like every other program.
Side B: the columns of T0 are split into the table's own columns and "foreign" ones, which live in a second table `u`
        with the same rows (or in polars / pandas Series); every maximal element-wise subtree that reads only foreign columns
        is passed as `eval_aligned(...)` (sometimes a mixed element-wise subtree as a whole, as in the documentation).
Oracle: B's export == A's export restricted to B's columns (A itself == REF), and B raises nothing if A exported.
"""

from __future__ import annotations

import random

from . import compare, drive, gen, kf, runner
from .runner import Finding

WINDOW_OPS = {"row_number", "rank", "dense_rank", "shift", "cum_sum", "count_star"}


def _is_context_fn(n):
    return n.get("k") == "fn" and (n["op"] in kf.AGG or n["op"] in WINDOW_OPS or n.get("pb") is not None or n.get("arr") or n.get("flt"))


def _names(e):
    return {n["n"] for n in kf.walk(e) if n.get("k") in ("col", "c")}


def _elementwise(e):
    return not any(_is_context_fn(n) for n in kf.walk(e))


VERBS = {
    "mutate_e": 3,
    "mutate_a": 2,
    "mutate_w": 2,
    "filter": 2,
    "arrange": 1.5,
    "summarize": 2.5,
}


def gen_aligned(seed, verbs=None):
    g = gen.ProgGen(seed)
    rng = g.rng
    cols = ["k", "g", "x", "y", "f", "b", "s"] + (["d"] if rng.random() < 0.3 else [])
    h = g.add_table("t", cols=cols, nrows=rng.choice([None, None, 0, 1, 2]))
    want = verbs or VERBS
    verb = rng.choices(list(want), [want[v] for v in want])[0]
    # row-preserving history before the verb: new and overwritten columns (the table is then not a source table any more)
    for _ in range(rng.choice([0, 0, 1, 2])):
        st = g.step_mutate(h, ("e",), rng.choice([1, 2]))
        if st is not None and g.try_step(st):
            h = st["out"]
        elif st is not None:
            g.nh -= 1
    if rng.random() < (0.7 if verb == "summarize" else 0.35):
        st = g.step_group_by(h)
        if st is not None and g.try_step(st):
            h = st["out"]
        elif st is not None:
            g.nh -= 1
    for _ in range(6):
        if verb.startswith("mutate"):
            st = g.step_mutate(h, {"e": ("e",), "a": ("a", "a", "e"), "w": ("w", "w", "e")}[verb[-1]], rng.choice([1, 2, 2, 3]))
        elif verb == "filter":
            st = g.step_filter(h, rng.choice([1, 2]))
        elif verb == "arrange":
            st = g.step_arrange(h)
        else:
            st = g.step_summarize(h)
        if st is None:
            continue
        if g.try_step(st):
            h = st["out"]
            break
        g.nh -= 1
    else:
        raise gen_failure("no accepted verb")
    prog = g.finish([h])
    # ---- split the columns
    last = prog["steps"][-1]
    forced = set()
    for st in prog["steps"]:
        if st["verb"] == "group_by":
            forced |= _names(st["cols"])
        for n in kf.walk(st):
            if n.get("k") == "fn" and n.get("pb"):
                forced |= _names(n["pb"])
        if st["verb"] == "summarize":
            # grouping keys used bare in summarize must stay columns of the table
            pass
    used = _names(last) & set(cols)
    free = [c for c in cols if c not in forced]
    foreign = {c for c in free if rng.random() < 0.5}
    if not (foreign & used) and (used - forced):
        foreign.add(rng.choice(sorted(used - forced)))
    if len(foreign) == len(cols):
        foreign.discard(rng.choice(sorted(foreign)))
    prog["meta"]["family"] = "aligned"
    prog["meta"]["aligned"] = {"foreign": sorted(foreign), "form_seed": rng.randrange(1 << 30), "verb": verb}
    return prog


class gen_failure(Exception):
    pass


class AlignedBuilder(drive.ExprBuilder):
    def __init__(self, env, own_tbl, u_tbl, frames, foreign, rng, stats, defined_at=None, cur=None, memo=None):
        super().__init__(env, None)
        self.own_tbl, self.u_tbl, self.frames, self.foreign, self.rng, self.stats = own_tbl, u_tbl, frames, set(foreign), rng, stats
        self.inside = False
        self.memo = memo if memo is not None else {}
        self.defined_at = defined_at or {}  # handle -> names (re)defined by earlier verbs: those are columns of the table
        self.cur = cur  # the handle the verb is applied to (C.<name> is resolved there)

    def is_foreign(self, n):
        if n.get("k") == "col":
            return n["n"] in self.foreign and n["n"] not in self.defined_at.get(n["t"], ())
        if n.get("k") == "c":
            return n["n"] in self.foreign and n["n"] not in self.defined_at.get(self.cur, ())
        return False

    def leaves(self, e):
        return [n for n in kf.walk(e) if n.get("k") in ("col", "c")]

    def _col(self, name):
        return self.u_tbl[name]

    def b(self, e, wrap=False):
        import pydiverse.transform as pdt

        if self.inside or not isinstance(e, dict):
            return self._inner(e, wrap)
        k = e.get("k")
        if k in ("col", "c", "cast", "case", "map", "fn") and _elementwise(e):
            lv = self.leaves(e)
            nf = sum(1 for n in lv if self.is_foreign(n))
            if lv and nf == len(lv):
                return self._aligned(e, mixed=False)
            if nf and self.rng.random() < 0.3 and not any(n.get("k") == "c" for n in lv):
                return self._aligned(e, mixed=True)
        return super().b(e, wrap)

    def _inner(self, e, wrap):
        # inside eval_aligned(...): foreign columns are columns of `u`, own columns are columns of the table
        if isinstance(e, dict) and e.get("k") in ("col", "c") and self.is_foreign(e):
            return self._col(e["n"])
        if isinstance(e, dict) and e.get("k") == "c":
            return self.env[self.cur][e["n"]]
        return super().b(e, wrap)

    def _aligned(self, e, mixed):
        # one eval_aligned OBJECT may occur several times (within one verb and in later verbs): expressions are values
        import json

        key = json.dumps(e, sort_keys=True, default=str)
        if not any(n.get("k") == "c" for n in kf.walk(e)) and key in self.memo and self.rng.random() < 0.7:
            self.stats["aligned:object_reused"] += 1
            return self.memo[key]
        r = self._aligned_new(e, mixed)
        self.memo[key] = r
        return r

    def _aligned_new(self, e, mixed):
        import polars as pl
        import pydiverse.transform as pdt

        form = self.rng.choice(["plain", "plain", "with_tbl", "with_col", "series", "pandas"])
        if e.get("k") in ("col", "c") and form in ("series", "pandas"):
            s = self.frames["u"].get_column(e["n"])
            try:
                val = s.to_pandas() if form == "pandas" and s.dtype in (pl.Int64, pl.Float64) and s.null_count() == 0 else s
            except Exception:  # noqa: BLE001  (pandas conversion is not what is tested)
                val = s
            self.stats["aligned:" + ("pandas_series" if val is not s else "polars_series")] += 1
            return pdt.eval_aligned(val)
        self.inside = True
        try:
            inner = self._inner(e, True) if e.get("k") in ("col", "c") else super().b(e, True)
        finally:
            self.inside = False
        self.stats["aligned:" + ("mixed_expression" if mixed else "foreign_expression")] += 1
        if form == "with_tbl":
            return pdt.eval_aligned(inner, with_=self.own_tbl)
        if form == "with_col":
            return pdt.eval_aligned(inner, with_=next(iter(self.own_tbl)))  # a column of the source table
        return pdt.eval_aligned(inner)


class AlignedRun(drive.RealRun):
    def __init__(self, program, backend, stats, u_backend=None):
        super().__init__(program, backend, share=False)
        self.u_be = u_backend or backend
        self.meta = program["meta"]["aligned"]
        self.rng = random.Random(self.meta["form_seed"])
        self.stats = stats
        self.defined_at = {}
        self.cur = None
        self.memo = {}

    def setup_tables(self):
        (ts,) = self.p["tables"]
        foreign = set(self.meta["foreign"])
        own = dict(ts, schema=[c for c in ts["schema"] if c[0] not in foreign], rows=[[v for v, c in zip(r, ts["schema"]) if c[0] not in foreign] for r in ts["rows"]])
        oth = dict(ts, name="u", handle="U0", schema=[c for c in ts["schema"] if c[0] in foreign], rows=[[v for v, c in zip(r, ts["schema"]) if c[0] in foreign] for r in ts["rows"]])
        self.env[ts["handle"]] = self.be.make_table(own)
        self.u_tbl = self.u_be.make_table(oth)
        import pydiverse.transform as pdt

        self.frames = {"u": self.u_tbl >> pdt.export(pdt.Polars())}
        self.own0 = self.env[ts["handle"]]

    def builder(self):
        return AlignedBuilder(self.env, self.own0, self.u_tbl, self.frames, self.meta["foreign"], self.rng, self.stats, self.defined_at, self.cur, self.memo)

    def apply(self, st):
        self.cur = st["in"]
        new = super().apply(st)
        d = set(self.defined_at.get(st["in"], ()))
        if st["verb"] in ("mutate", "summarize"):
            d |= {n for n, _e in st["kw"]}
        self.defined_at[st["out"]] = d
        return new


def _unoptimized_schema(rb, h):
    import polars as pl
    import pydiverse.transform as pdt

    try:
        lf = rb.env[h] >> pdt.export(pdt.Polars(lazy=True))
        return dict(lf.collect(optimizations=pl.QueryOptFlags.none()).schema)
    except Exception:  # noqa: BLE001
        return None


def check_program(prog, stats, be_cache=None):
    """Returns (findings, verdict) with verdict in {"judged", "side_a_not_judged", "side_a_excluded"}."""
    out = runner.run_program(prog, backends=("pol",), opts={"reexport_every": 0}, be_cache=be_cache)
    h = prog["probes"][-1]
    if out.excluded:
        return out.findings, "side_a_excluded"
    if out.findings or ("pol", h) not in out.frames or h not in out.ref_ok.get("pol", ()):
        return out.findings, "side_a_not_judged"
    if runner._ref_has_taint(out.ref_env["pol"][h]):
        return [], "side_a_excluded"
    fa = out.frames[("pol", h)]
    backend = (be_cache or {}).get("pol") or drive.Backend("pol")
    rb = AlignedRun(prog, backend, stats)
    finds = []
    try:
        rb.setup_tables()
        for st in prog["steps"]:
            rb.env[st["out"]] = rb.apply(st)
        fb = rb.export(h)
    except (KeyboardInterrupt, SystemExit):
        raise
    except BaseException as e:  # noqa: BLE001
        finds.append(Finding("exc:pol", "pol", h, f"eval_aligned form of an accepted pipeline raised {type(e).__name__}: {str(e)[:300]}", verb="eval_aligned", exc=type(e).__name__, extra={"feature": "eval_aligned"}))
        return finds, "judged"
    missing = [c for c in fb.columns if c not in fa.columns]
    if missing:
        finds.append(Finding("value:pol", "pol", h, f"eval_aligned form has columns {missing} that the plain form lacks", verb="eval_aligned", extra={"feature": "eval_aligned"}))
        return finds, "judged"
    ordered = prog["steps"][-1]["verb"] != "summarize"
    p = compare.frames_equal(fa.select(fb.columns), fb, ordered=ordered)
    if p:
        finds.append(Finding("value:pol", "pol", h, "eval_aligned form differs from the plain form (plain == REF): " + p, verb="eval_aligned", extra={"feature": "eval_aligned"}))
    if dict(fa.select(fb.columns).schema) != dict(fb.schema) and not p and _unoptimized_schema(rb, h) == dict(fa.select(fb.columns).schema):
        # D23: the Polars optimizer (common subexpression elimination) conflates literal series that are empty / all null
        # but of different dtypes; the plan pydiverse.transform built is right (collected without optimizations it has the
        # schema of the plain form), values are equal - an engine bug, reproduced in notes/polars_bugs.py
        stats["excluded_by_domain:pol:D23"] += 1
    elif dict(fa.select(fb.columns).schema) != dict(fb.schema):
        finds.append(Finding("value:pol", "pol", h, f"eval_aligned form has schema {dict(fb.schema)}, plain form {dict(fa.select(fb.columns).schema)}", verb="eval_aligned", extra={"feature": "eval_aligned"}))
    return finds, "judged"


def run(run_, prop, n, shard_index=0, verbs=None, spec=None):
    from .checks.pipeline import case_seed, owned_by

    cache = {}
    for i in range(n):
        s = case_seed(run_.seed, run_.tier, shard_index, 7_000_000 + i)
        try:
            prog = gen_aligned(s, verbs)
        except Exception as e:  # noqa: BLE001  generator bug: never a verdict about the repository
            run_.counters["generator_failures"] += 1
            run_.extra.setdefault("generator_failure_examples", [])
            if len(run_.extra["generator_failure_examples"]) < 3:
                run_.extra["generator_failure_examples"].append(f"aligned:{s}:{type(e).__name__}:{e}")
            continue
        finds, verdict = check_program(prog, run_.counters, cache)
        run_.case(prog)
        run_.counters["programs:aligned"] += 1
        run_.counters["aligned_pairs:" + verdict] += 1
        run_.counters["aligned_verb:" + prog["meta"]["aligned"]["verb"]] += 1
        for f in finds:
            if f.kind == "harness":
                run_.counters["harness_problems"] += 1
                continue
            if verdict != "judged":
                continue  # side A's own findings belong to the main loop of the owning checks

            def still(q, f0=f):
                if "aligned" not in q.get("meta", {}):
                    return False
                try:
                    ff, vv = check_program(q, __import__("collections").Counter())
                except Exception:  # noqa: BLE001
                    return False
                return vv == "judged" and any(g.kind == f0.kind and g.exc == f0.exc for g in ff)

            run_.finding(f, prog, owned=spec is None or owned_by(spec, f), reshrink=still)
