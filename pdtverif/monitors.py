"""Monitors that watch the real pydiverse.transform code while workloads run.

  API  – boundary recorder (logical clock, call / return / raise events)
  SAN  – sanitizer: invariants I1..I7, I10, I14 asserted on *every* verb application, installed at the
         pipe choke point `Pipeable.__call__` (every `tbl >> verb(...)`, including verbs called by verbs)
  SQL  – statement-level monitor at the database boundary (SQLAlchemy cursor events + sqlite3
         authorizer): one statement per export, SELECT only, read-only action codes
  INT  – sys.monitoring (PEP 669) probes on named *code objects* of internal decision functions
         (requires_subquery, check_subquery, get_impl, best_signature_match, export, _clone, ...):
         source-free, immune to `from m import f` bindings made at import time
  COV  – anchor hit counters (what the workload actually reached)

Nothing here is installed unless the guard PDT_VERIF=1 is set (checks set it themselves).
Monitor violations are *recorded* (SAN.violations), never raised into the code under test.
"""

from __future__ import annotations

import contextlib
import dataclasses
import os
import sys
from collections import Counter

GUARD = "PDT_VERIF"


def enabled():
    return os.environ.get(GUARD) == "1"


# ---------------------------------------------------------------------------------------------
# API boundary recorder
# ---------------------------------------------------------------------------------------------


class _Api:
    def __init__(self):
        self.clock = 0
        self.events = []
        self.keep = False
        self.counts = Counter()

    def tick(self):
        self.clock += 1
        return self.clock

    def record(self, kind, what, **kw):
        self.counts[(kind, what)] += 1
        if self.keep:
            self.events.append({"t": self.tick(), "kind": kind, "what": what, **kw})

    def reset(self):
        self.events = []


API = _Api()


# ---------------------------------------------------------------------------------------------
# structural fingerprints
# ---------------------------------------------------------------------------------------------

MEMO_FIELDS = ("_dtype", "_ftype")


def _is_expr(o):
    from pydiverse.transform._internal.tree.col_expr import ColExpr, Order

    return isinstance(o, ColExpr | Order)


def _fp_expr(e, out):
    """Flat fingerprint of an expression DAG: id -> dict(field -> value)."""
    from pydiverse.transform._internal.tree import col_expr as ce

    if id(e) in out:
        return
    d = {"__class__": type(e).__name__, "__obj__": e}
    out[id(e)] = d
    if isinstance(e, ce.Order):
        d["descending"] = e.descending
        d["nulls_last"] = e.nulls_last
        d["order_by"] = id(e.order_by)
        _fp_expr(e.order_by, out)
        return
    d["_dtype"] = repr(e._dtype) if getattr(e, "_dtype", None) is not None else None
    d["_ftype"] = int(e._ftype) if getattr(e, "_ftype", None) is not None else None
    if isinstance(e, ce.Col):
        d["name"] = e.name
        d["_uuid"] = e._uuid
        d["_ast"] = id(e._ast)
    elif isinstance(e, ce.ColName):
        d["name"] = e.name
    elif isinstance(e, ce.LiteralCol):
        d["val"] = repr(e.val)
    elif isinstance(e, ce.ColFn):
        d["op"] = e.op.name
        d["args"] = tuple(id(a) for a in e.args)
        d["ctx_id"] = id(e.context_kwargs)
        d["ctx"] = tuple((k, tuple(id(v) for v in vals)) for k, vals in e.context_kwargs.items())
        for a in e.args:
            _fp_expr(a, out)
        for vals in e.context_kwargs.values():
            for v in vals:
                _fp_expr(v, out)
    elif isinstance(e, ce.CaseExpr):
        d["cases"] = tuple((id(c), id(v)) for c, v in e.cases)
        d["default"] = id(e.default_val) if e.default_val is not None else None
        for c, v in e.cases:
            _fp_expr(c, out)
            _fp_expr(v, out)
        if e.default_val is not None:
            _fp_expr(e.default_val, out)
    elif isinstance(e, ce.Cast):
        d["val"] = id(e.val)
        d["target"] = repr(e.target_type)
        d["strict"] = e.strict
        _fp_expr(e.val, out)
    elif isinstance(e, ce.EvalAligned):
        d["val"] = id(e.val)
        _fp_expr(e.val, out)
    elif isinstance(e, ce.Series):
        d["val"] = id(e.val)


def _fp_ast(nd, out):
    from pydiverse.transform._internal.backend.table_impl import TableImpl
    from pydiverse.transform._internal.tree import verbs

    if id(nd) in out:
        return
    d = {"__class__": type(nd).__name__, "__obj__": nd, "name": getattr(nd, "name", None)}
    out[id(nd)] = d
    if isinstance(nd, TableImpl):
        d["cols"] = tuple((n, id(c), c._uuid, c.name) for n, c in nd.cols.items())
        if hasattr(nd, "df"):
            d["df"] = id(nd.df)
        if hasattr(nd, "table"):
            d["table"] = id(nd.table)
            d["table_name"] = getattr(nd.table, "name", None)
        return
    if isinstance(nd, verbs.Verb):
        d["child"] = id(nd.child)
        _fp_ast(nd.child, out)
        if dataclasses.is_dataclass(nd):
            for f in dataclasses.fields(nd):
                if f.name == "child":
                    continue
                v = getattr(nd, f.name)
                d[f.name] = _fp_field(v, out)
        if hasattr(nd, "right"):
            _fp_ast(nd.right, out)


def _fp_field(v, out):
    from pydiverse.transform._internal.tree.ast import AstNode

    if _is_expr(v):
        _fp_expr(v, out)
        return ("expr", id(v))
    if isinstance(v, AstNode):
        _fp_ast(v, out)
        return ("ast", id(v))
    if isinstance(v, list | tuple):
        return ("seq", id(v) if isinstance(v, list) else 0, tuple(_fp_field(x, out) for x in v))
    if isinstance(v, dict):
        return ("dict", id(v), tuple((repr(k), _fp_field(x, out)) for k, x in v.items()))
    return ("val", repr(v))


def fp_cache(c):
    return {
        "name_to_uuid": tuple(c.name_to_uuid.items()),
        "uuid_to_name": tuple(c.uuid_to_name.items()),
        "partition_by": tuple(c.partition_by),
        "derived_from": frozenset(id(n) for n in c.derived_from),
        "cols": tuple((u, id(col)) for u, col in c.cols.items()),
        "limit": c.limit,
        "group_by": frozenset(c.group_by),
        "is_filtered": c.is_filtered,
        "backend": c.backend.__name__,
    }


def fingerprint_table(t):
    out = {}
    _fp_ast(t._ast, out)
    return {"ast_root": id(t._ast), "cache_id": id(t._cache), "cache": fp_cache(t._cache), "nodes": out}


def fingerprint_objs(objs):
    out = {}
    for o in objs:
        if _is_expr(o):
            _fp_expr(o, out)
    return out


def diff_nodes(pre, post):
    """Fieldwise comparison; memo fields may go None -> value (benign memoisation)."""
    diffs = []
    for oid, d0 in pre.items():
        d1 = post.get(oid)
        if d1 is None:
            diffs.append((d0["__class__"], "<object vanished>", None, None))
            continue
        for k, v0 in d0.items():
            if k == "__obj__":
                continue
            v1 = d1.get(k)
            if v0 == v1:
                continue
            if k in MEMO_FIELDS and v0 is None:
                continue
            diffs.append((d0["__class__"], k, v0, v1))
    return diffs


def collect_exprs(obj, acc, depth=0):
    """All expression objects reachable from verb call arguments."""
    if depth > 6:
        return
    if _is_expr(obj):
        acc.append(obj)
    elif isinstance(obj, list | tuple | set):
        for x in obj:
            collect_exprs(x, acc, depth + 1)
    elif isinstance(obj, dict):
        for k, x in obj.items():
            collect_exprs(k, acc, depth + 1)
            collect_exprs(x, acc, depth + 1)


# ---------------------------------------------------------------------------------------------
# SAN — invariants on every verb application
# ---------------------------------------------------------------------------------------------


AST_VERBS = {"select", "drop", "rename", "mutate", "filter", "arrange", "group_by", "ungroup", "summarize", "slice_head", "join", "inner_join",
             "left_join", "full_join", "cross_join", "alias", "collect", "_union_verb"}


class _San:
    def __init__(self):
        self.installed = False
        self.violations = []  # dicts: {inv, verb, detail}
        self.counts = Counter()
        self.user_held = []  # expression objects registered by drivers (I5)
        self.stack = []
        self.verbs_seen = Counter()
        self.suspend = 0
        self.check_exports = False
        self.last_monitor_error = None

    def check_export(self, tbl, res):
        """I8 / I9 on every Polars export that goes through the pipe (used when the repository's own test-suites
        run under the monitors; the generated workloads check the same at their probes)."""
        try:
            import polars as pl
        except Exception:
            return
        if isinstance(res, pl.LazyFrame):
            return
        if not isinstance(res, pl.DataFrame):
            return
        from . import runner

        self.suspend += 1
        try:
            self.counts["I8"] += 1
            for p in runner.metadata_problem(tbl, res):
                self.report("I8", "export", p)
            self.counts["I9"] += 1
            be = "pol" if tbl._cache.backend.backend_name.endswith("polars") else "sql"
            for p in runner.static_type_problem(tbl, res, be):
                self.report("I9", "export", p)
        except Exception as e:  # the monitor must never disturb the code under test
            self.counts["monitor_errors"] += 1
            self.last_monitor_error = f"{type(e).__name__}: {e}"
        finally:
            self.suspend -= 1

    def report(self, inv, verb, detail):
        self.violations.append({"inv": inv, "verb": verb, "detail": detail})

    def drain(self):
        v, self.violations = self.violations, []
        return v

    def install(self):
        if self.installed or not enabled():
            return
        from pydiverse.transform._internal.pipe import pipeable
        from pydiverse.transform._internal.pipe.table import Table

        orig = pipeable.Pipeable.__call__
        san = self

        def verb_names(p):
            names = []
            for c in p.calls or []:
                f = getattr(c, "func", c)
                names.append(getattr(f, "__name__", type(f).__name__))
            return names

        def __call__(self, arg):
            if san.suspend or not isinstance(arg, Table):
                return orig(self, arg)
            names = verb_names(self)
            vname = "+".join(names)
            san.verbs_seen[vname] += 1
            exprs = []
            for c in self.calls or []:
                collect_exprs(getattr(c, "args", ()), exprs)
                collect_exprs(getattr(c, "keywords", {}), exprs)
            tables = []
            for c in self.calls or []:
                for a in list(getattr(c, "args", ())) + list(getattr(c, "keywords", {}).values()):
                    if isinstance(a, Table):
                        tables.append(a)
            pre_t = fingerprint_table(arg)
            pre_others = [fingerprint_table(t) for t in tables]
            pre_e = fingerprint_objs(exprs + san.user_held)
            san.stack.append(arg)
            API.record("call", vname)
            try:
                res = orig(self, arg)
            except BaseException as e:
                san.stack.pop()
                API.record("raise", vname, cls=type(e).__name__)
                san._post_unchanged(vname, arg, pre_t, tables, pre_others, pre_e, exprs, raised=True)
                raise
            san.stack.pop()
            API.record("return", vname)
            san._post_unchanged(vname, arg, pre_t, tables, pre_others, pre_e, exprs, raised=False)
            if isinstance(res, Table):
                san.check_table(res, vname, old=arg)
            elif san.check_exports and names == ["export"]:
                san.check_export(arg, res)
            return res

        pipeable.Pipeable.__call__ = __call__
        self.installed = True

    # I4/I5/I6/I14
    def _post_unchanged(self, vname, arg, pre_t, tables, pre_others, pre_e, exprs, raised):
        inv_t = "I14" if raised else "I4"
        for t, pre in [(arg, pre_t)] + list(zip(tables, pre_others)):
            self.counts[inv_t] += 1
            post = fingerprint_table(t)
            if post["ast_root"] != pre["ast_root"]:
                self.report(inv_t, vname, "input table's _ast was re-bound")
            if post["cache"] != pre["cache"]:
                ks = [k for k in pre["cache"] if pre["cache"][k] != post["cache"][k]]
                self.report(inv_t, vname, f"input table's cache changed in {ks}")
            d = diff_nodes(pre["nodes"], post["nodes"])
            if d:
                self.report(inv_t, vname, f"input table's tree changed: {_short(d)}")
        self.counts["I5"] += 1
        post_e = fingerprint_objs(exprs + self.user_held)
        d = diff_nodes(pre_e, post_e)
        if d:
            self.report("I5", vname, f"argument / user-held expression changed: {_short(d)}")

    # I1/I2/I3/I7
    def check_table(self, t, vname="?", old=None):
        from pydiverse.transform._internal.pipe.cache import Cache

        c = t._cache
        self.counts["I1"] += 1
        if list(c.name_to_uuid.items()) != [(n, u) for u, n in c.uuid_to_name.items()]:
            self.report("I1", vname, f"name_to_uuid / uuid_to_name not mutually inverse in order: "
                        f"{list(c.name_to_uuid)} vs {list(c.uuid_to_name.values())}")
        self.counts["I2"] += 1
        for u in c.uuid_to_name:
            if u not in c.cols:
                self.report("I2", vname, f"visible uuid of `{c.uuid_to_name[u]}` not in cols")
        for u in c.partition_by:
            if u not in c.cols:
                self.report("I2", vname, "partition_by uuid not in cols")
        for u, col in c.cols.items():
            if col._uuid != u:
                self.report("I2", vname, "cols key != col._uuid")
        self.counts["I3"] += 1
        try:
            self.suspend += 1
            try:
                rc = Cache.from_ast(t._ast)
            finally:
                self.suspend -= 1
        except Exception as e:  # recomputation itself failing is reported, not raised
            self.report("I3", vname, f"Cache.from_ast raised {type(e).__name__}: {e}")
            rc = None
        if rc is not None:
            if list(rc.name_to_uuid.items()) != list(c.name_to_uuid.items()):
                self.report("I3", vname, f"incremental names {list(c.name_to_uuid)} != recomputed {list(rc.name_to_uuid)}")
            if list(rc.partition_by) != list(c.partition_by):
                self.report("I3", vname, "incremental partition_by != recomputed")
            if set(rc.cols) != set(c.cols):
                self.report("I3", vname, "incremental cols key set != recomputed")
            if (rc.limit, rc.group_by, rc.is_filtered) != (c.limit, c.group_by, c.is_filtered):
                self.report("I3", vname, f"subquery state incremental {(c.limit, c.group_by, c.is_filtered)} != "
                            f"recomputed {(rc.limit, rc.group_by, rc.is_filtered)}")
        if old is not None and vname.split("+")[-1] in AST_VERBS:
            # (custom verbs and show(pipe=True) / show_query(pipe=True) may legitimately return their input)
            self.counts["I7"] += 1
            if t is old:
                self.report("I7", vname, "verb returned its input object")


def _short(d, n=3):
    return "; ".join(f"{c}.{k}: {str(a)[:60]} -> {str(b)[:60]}" for c, k, a, b in d[:n])


SAN = _San()


# ---------------------------------------------------------------------------------------------
# SQL — statement-level monitor
# ---------------------------------------------------------------------------------------------

SQLITE_ALLOWED_ACTIONS = {20, 21, 31, 33}  # READ, SELECT, FUNCTION, RECURSIVE


class _Sql:
    def __init__(self):
        self.in_setup = 0
        self.statements = []
        self.auth = []
        self.counts = Counter()
        self.attached = set()

    def attach(self, engine):
        import sqlalchemy as sqa

        if id(engine) in self.attached:
            return
        self.attached.add(id(engine))
        mon = self

        @sqa.event.listens_for(engine, "before_cursor_execute")
        def _before(conn, cursor, statement, parameters, context, executemany):
            if mon.in_setup:
                return
            mon.statements.append((statement, parameters))
            mon.counts["statements"] += 1

        @sqa.event.listens_for(engine, "connect")
        def _conn(dbapi_conn, _rec):
            def authorizer(action, a1, a2, dbname, src):
                if not mon.in_setup:
                    mon.auth.append((action, a1, a2))
                    mon.counts["auth_events"] += 1
                return 0

            try:
                dbapi_conn.set_authorizer(authorizer)
            except Exception:
                pass

    @contextlib.contextmanager
    def setup(self):
        self.in_setup += 1
        try:
            yield
        finally:
            self.in_setup -= 1

    def begin(self):
        self.statements = []
        self.auth = []

    def end(self):
        st, au = self.statements, self.auth
        self.statements, self.auth = [], []
        return st, au


SQL = _Sql()


def check_statements(stmts, auth):
    """I11: exactly one statement, a SELECT, read-only action codes. Returns list of problems."""
    probs = []
    if len(stmts) != 1:
        probs.append(f"{len(stmts)} statements reached the cursor for one export")
    for s, _params in stmts:
        head = s.lstrip().split(None, 1)[0].upper() if s.strip() else ""
        if head not in ("SELECT", "WITH"):
            probs.append(f"non-SELECT statement: {s[:80]!r}")
        if _params:
            probs.append(f"bound parameters left in exported statement: {_params!r}")
    bad = {a for a, _, _ in auth if a not in SQLITE_ALLOWED_ACTIONS}
    if bad:
        probs.append(f"sqlite authorizer saw write/DDL action codes {sorted(bad)}")
    return probs


# ---------------------------------------------------------------------------------------------
# INT / COV — sys.monitoring probes on code objects
# ---------------------------------------------------------------------------------------------

TOOL_ID = 3


class _Int:
    def __init__(self):
        self.active = False
        self.on_return = {}  # code -> [callbacks(frame, retval)]
        self.on_start = {}
        self.hits = Counter()
        self.subquery_reasons = Counter()
        self.subquery_events = []
        self.impl_seen = Counter()
        self.clone_events = 0
        self.export_events = []
        self.keep_events = False

    def _code(self, fn):
        fn = getattr(fn, "__func__", fn)
        fn = getattr(fn, "__wrapped__", fn) if not hasattr(fn, "__code__") else fn
        return fn.__code__

    def watch(self, fn, name, on_return=None, on_start=None):
        code = self._code(fn)
        mon = sys.monitoring
        ev = 0
        if on_return is not None:
            self.on_return.setdefault(code, []).append((name, on_return))
            ev |= mon.events.PY_RETURN
        if on_start is not None:
            self.on_start.setdefault(code, []).append((name, on_start))
        ev |= mon.events.PY_START
        self.on_start.setdefault(code, [])
        cur = mon.get_local_events(TOOL_ID, code)
        mon.set_local_events(TOOL_ID, code, cur | ev)
        self._names = getattr(self, "_names", {})
        self._names[code] = name

    def start(self):
        if self.active or not enabled():
            return
        mon = sys.monitoring
        try:
            mon.use_tool_id(TOOL_ID, "pdtverif")
        except ValueError:
            return
        self.active = True

        def _start(code, off):
            self.hits[self._names.get(code, code.co_name)] += 1
            cbs = self.on_start.get(code)
            if cbs:
                fr = sys._getframe(1)
                for _n, cb in cbs:
                    cb(fr)

        def _ret(code, off, retval):
            cbs = self.on_return.get(code)
            if cbs:
                fr = sys._getframe(1)
                for _n, cb in cbs:
                    cb(fr, retval)

        mon.register_callback(TOOL_ID, mon.events.PY_START, _start)
        mon.register_callback(TOOL_ID, mon.events.PY_RETURN, _ret)
        self._install_default_probes()

    def _install_default_probes(self):
        from pydiverse.transform._internal.backend import polars as bpol
        from pydiverse.transform._internal.backend import sql as bsql
        from pydiverse.transform._internal.backend.impl_store import ImplStore
        from pydiverse.transform._internal.backend.table_impl import TableImpl
        from pydiverse.transform._internal.ops import signature
        from pydiverse.transform._internal.pipe import cache, pipeable
        from pydiverse.transform._internal.pipe import verbs as pverbs
        from pydiverse.transform._internal.tree import verbs as tverbs

        mon = self

        def rs_ret(fr, retval):
            loc = fr.f_locals
            c = loc.get("self")
            nd = loc.get("node")
            if c is None or nd is None:
                return
            if c.backend.backend_name == "polars":
                if retval is not None:
                    SAN.report("C08d", type(nd).__name__, "requires_subquery returned a reason for a Polars table")
                return
            mon.subquery_reasons[retval or "<none>"] += 1
            if mon.keep_events:
                mon.subquery_events.append((type(nd).__name__, c.limit, len(c.group_by), c.is_filtered, retval))

        self.watch(cache.Cache.requires_subquery, "Cache.requires_subquery", on_return=rs_ret)
        self.watch(cache.Cache.update, "Cache.update")
        self.watch(cache.Cache.from_ast, "Cache.from_ast")
        self.watch(pipeable.check_subquery, "check_subquery")
        self.watch(pverbs.preprocess_arg, "preprocess_arg")
        self.watch(tverbs.Verb._clone, "Verb._clone", on_return=self._clone_ret)
        self.watch(tverbs.Alias._clone, "Alias._clone", on_return=self._clone_ret)
        self.watch(tverbs.Join._clone, "Join._clone", on_return=self._clone_ret)
        self.watch(tverbs.Union._clone, "Union._clone", on_return=self._clone_ret)
        self.watch(bsql.SqlImpl.compile_ast, "SqlImpl.compile_ast")
        self.watch(bsql.SqlImpl.compile_query, "SqlImpl.compile_query")
        def cce_ret(fr, retval):
            # C19: an operator implementation that falls off its end compiles to NULL silently
            if retval is None:
                e = fr.f_locals.get("expr")
                if e is not None and type(e).__name__ == "ColFn":
                    SAN.report("C19-none", "compile_col_expr", f"SQL implementation of `{e.op.name}` on {fr.f_locals.get('cls').__name__} returned None")

        self.watch(bsql.SqlImpl.compile_col_expr, "SqlImpl.compile_col_expr", on_return=cce_ret)
        self.watch(bsql.create_aliases, "create_aliases")
        self.watch(bpol.compile_ast, "polars.compile_ast")
        self.watch(bpol.compile_col_expr, "polars.compile_col_expr")
        self.watch(bpol.PolarsImpl.export, "PolarsImpl.export", on_start=self._export_start)
        self.watch(bsql.SqlImpl.export, "SqlImpl.export", on_start=self._export_start, on_return=self._sql_export_ret)
        self.watch(bsql.SqlImpl.build_query, "SqlImpl.build_query", on_start=self._export_start)
        self.watch(signature.best_signature_match, "best_signature_match")
        self.watch(signature.SignatureTrie.best_match, "SignatureTrie.best_match")

        def impl_ret(fr, retval):
            loc = fr.f_locals
            cls, op, sig = loc.get("cls"), loc.get("op"), loc.get("sig")
            if cls is None or op is None:
                return
            mon.impl_seen[(cls.__name__, op.name)] += 1

        self.watch(TableImpl.get_impl, "TableImpl.get_impl", on_return=impl_ret)
        self.watch(ImplStore.get_impl, "ImplStore.get_impl")

    def _clone_ret(self, fr, retval):
        # the clone maps (nd_map, uuid_map) must be injective (C16: bijection on the uuids in scope)
        self.clone_events += 1
        try:
            _cl, nd_map, uuid_map = retval
        except Exception:
            return
        vals = list(uuid_map.values())
        if len(set(vals)) != len(vals):
            SAN.report("C16-clone", "clone", "uuid_map returned by _clone is not injective")

    def _export_start(self, fr):
        # I10: the backend must receive a clone — no node of the user's table may be reachable
        nd = fr.f_locals.get("nd")
        if nd is None or not SAN.stack:
            return
        SAN.counts["I10"] += 1
        user = SAN.stack[-1]
        try:
            mine = {id(n) for n in user._ast.iter_subtree_preorder()}
            given = {id(n) for n in nd.iter_subtree_preorder()}
        except Exception:
            return
        if mine & given:
            SAN.report("I10", fr.f_code.co_name, "backend received nodes of the user's own tree (no clone)")

    def _sql_export_ret(self, fr, retval):
        loc = fr.f_locals
        sel, fs = loc.get("sel"), loc.get("final_select")
        if sel is None or fs is None:
            return
        nd = loc.get("nd")
        SAN.counts["I12"] += 1
        a = [c.name for c in sel.selected_columns]
        try:
            from pydiverse.transform._internal.pipe.cache import Cache

            SAN.suspend += 1
            try:
                cache = Cache.from_ast(nd)
            finally:
                SAN.suspend -= 1
            b = [cache.uuid_to_name[c._uuid] for c in fs]
        except Exception:
            return
        if a != b:
            SAN.report("I12", "SqlImpl.export", f"selected_columns {a} paired positionally with metadata {b}")


INT = _Int()


def install_all():
    """Switch all always-on monitors on (no-op without the guard)."""
    if not enabled():
        return False
    SAN.install()
    INT.start()
    return True
