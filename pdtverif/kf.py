"""Known findings: genuine defects of the pinned tree that are recorded, not repaired.

`/verif/known_findings.jsonl` is the registry (never written at run time). Each `known` entry names a
*feature* — a predicate over the PROGRAM (never over observed values, seeds or hashes) implemented
below — plus the backend and the outcome classes the entry may explain.  A finding is a known finding
iff some entry matches (property, backend, outcome kind/exception) AND the program carries the
feature among the steps that lead to the failing step / probe.  Anything else stays a VIOLATION.
"""

from __future__ import annotations

import json
import os
import re

HERE = os.path.dirname(os.path.dirname(os.path.abspath(__file__)))
PATH = os.path.join(HERE, "known_findings.jsonl")

AGG = {"sum", "mean", "min", "max", "any", "all", "count", "count_star", "str.join"}
WIN = {"row_number", "rank", "dense_rank", "shift", "cum_sum"}
ORDER_SENSITIVE = {"row_number", "shift", "cum_sum"}
# operators that return null whenever all column inputs are null
STRICT_OPS = {
    "add", "sub", "mul", "truediv", "floordiv", "mod", "pow", "neg", "pos", "abs", "round", "floor", "ceil",
    "exp", "log", "log10", "sqrt", "cbrt", "sin", "cos", "tan", "asin", "acos", "atan",
    "eq", "ne", "lt", "le", "gt", "ge", "invert",
    "str.len", "str.upper", "str.lower", "str.strip", "str.starts_with", "str.ends_with", "str.contains",
    "str.replace_all", "str.slice", "dt.year", "dt.month", "dt.day", "dt.hour", "dt.minute", "dt.second",
    "dt.day_of_week", "dt.day_of_year", "hsum",
}  # fmt: skip


def load():
    out = []
    if os.path.exists(PATH):
        for line in open(PATH):
            line = line.strip()
            if line:
                out.append(json.loads(line))
    # development aid: PDT_KF_IGNORE=KF-11,KF-13 runs a check as if these entries were not listed (to see whether a
    # known finding still reproduces, e.g. against a scratch copy with a candidate repair)
    ign = set(filter(None, os.environ.get("PDT_KF_IGNORE", "").split(",")))
    return [e for e in out if e.get("id") not in ign]


# ---------------------------------------------------------------------------------------------
# program helpers
# ---------------------------------------------------------------------------------------------


def walk(e):
    if isinstance(e, dict):
        if "k" in e:
            yield e
        for v in e.values():
            yield from walk(v)
    elif isinstance(e, list):
        for v in e:
            yield from walk(v)


def has_col(e):
    return any(n.get("k") in ("col", "c") for n in walk(e))


def ancestors(prog, where):
    """Step indices that lead to `where` (a step index or an output handle), in order."""
    steps = prog["steps"]
    by_out = {s["out"]: i for i, s in enumerate(steps)}
    if isinstance(where, int):
        if where >= len(steps):
            return list(range(len(steps)))
        roots = [steps[where]["in"]] + ([steps[where]["right"]] if "right" in steps[where] else [])
        res = {where}
    else:
        roots = [where]
        res = set()
    stack = list(roots)
    while stack:
        h = stack.pop()
        i = by_out.get(h)
        if i is None or i in res:
            continue
        res.add(i)
        s = steps[i]
        stack.append(s["in"])
        for k in ("right", "ref"):
            if k in s:
                stack.append(s[k])

        # handles referenced inside expressions do not create data dependencies
    return sorted(res)


def strict(e):
    """Is the expression null whenever every column it reads is null (and does it read one)?"""
    k = e.get("k")
    if k in ("col", "c"):
        return True
    if k == "lit":
        return False
    if k == "cast":
        return strict(e["e"])
    if k == "fn":
        if e["op"] in STRICT_OPS:
            cols = [a for a in e["a"] if has_col(a)]
            return bool(cols) and all(strict(a) for a in cols)
        return False
    return False


# ---------------------------------------------------------------------------------------------
# features (predicates over the program)
# ---------------------------------------------------------------------------------------------


def _table_names(prog):
    out = {t["name"] for t in prog["tables"]}
    for st in prog["steps"]:
        if st["verb"] == "alias" and st.get("name"):
            out.add(st["name"])
    return out


def f_literal_with_pyformat_placeholder(prog, idxs, ctx):
    for i in idxs:
        for n in walk(prog["steps"][i]):
            if n.get("k") == "lit" and isinstance(n.get("v"), str) and re.search(r"%\(\w*\)s", n["v"]):
                return True
    return False


def f_null_typed_expression(prog, idxs, ctx):
    """An expression whose static type is NullType: an operator applied directly to the null literal, or a case
    expression all of whose branch values are null literals."""
    def isnull(v):
        return v is None or (v.get("k") == "lit" and v.get("v") is None)

    for i in idxs:
        for n in walk(prog["steps"][i]):
            if n.get("k") == "case" and all(isnull(v) for _c, v in n["cases"]) and isnull(n.get("default")):
                return True
            if n.get("k") == "fn" and n["a"] and all(isnull(a) for a in n["a"][:1]) and n["op"] not in ("coalesce", "fill_null", "is_null", "is_not_null"):
                return True
    return False


FEATURES = {
    "null_typed_expression": f_null_typed_expression,
    "literal_with_pyformat_placeholder": f_literal_with_pyformat_placeholder,
}


def register(name):
    def deco(f):
        FEATURES[name] = f
        return f

    return deco


def match(entry, prop, finding, prog, ctx=None):
    if entry.get("status") != "known":
        return False
    if prop not in entry["property"]:
        return False
    bes = entry.get("backend")
    if bes and finding.backend not in (bes if isinstance(bes, list) else [bes]):
        return False
    kinds = entry.get("kinds")
    if kinds and not any(finding.kind.startswith(k) for k in kinds):
        return False
    excs = entry.get("exc")
    if excs is not None and finding.exc is not None and finding.exc not in excs:
        return False
    if entry.get("detail_re") and finding.kind.startswith(tuple(entry.get("detail_re_kinds", [""]))) and not re.search(entry["detail_re"], finding.detail, re.S):
        return False
    feat = FEATURES.get(entry["feature"])
    if feat is None:
        return False
    where = finding.step
    known_handles = {st["out"] for st in prog["steps"]} | {t["handle"] for t in prog["tables"]}
    if where is None or (isinstance(where, str) and where not in known_handles) or (isinstance(where, int) and where >= len(prog["steps"])):
        idxs = list(range(len(prog["steps"])))  # e.g. a shrunk witness: all of it leads to the finding
    else:
        idxs = ancestors(prog, where)
    try:
        return bool(feat(prog, idxs, ctx))
    except Exception:
        return False


def classify(entries, prop, finding, prog, ctx=None):
    for e in entries:
        if match(e, prop, finding, prog, ctx):
            return e
    return None


def classify_plain(entries, prop, finding):
    """Findings that carry no program (sweeps): matched by feature name recorded in finding.extra."""
    feat = (getattr(finding, "extra", None) or {}).get("feature")
    for e in entries:
        if e.get("status") == "known" and prop in e["property"] and feat is not None and e["feature"] == feat:
            return e
    return None
