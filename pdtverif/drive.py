"""Drivers: instantiate a program (pure data) on the real pydiverse.transform through the public
pipe API, and on the reference interpreter.  Every API call is bracketed by the boundary recorder
(monitors.API) — call event before, return/raise event after.
"""

from __future__ import annotations

import datetime as _dt
import json

from . import ref
from . import monitors as M

PL_TYPES = None


class PanicException(Exception):
    """An engine panic (pyo3_runtime.PanicException derives from BaseException) re-raised as an ordinary exception of the
    same name, so that no `except Exception` of the harness lets one kill a worker: a dead worker makes a run inconclusive."""


def _pl():
    import polars as pl

    if not getattr(pl.LazyFrame.collect, "_pdtverif_tamed", False):
        try:
            from polars.exceptions import PanicException as _EnginePanic
        except Exception:  # noqa: BLE001
            return pl
        orig = pl.LazyFrame.collect

        def collect(self, *a, **kw):
            try:
                return orig(self, *a, **kw)
            except _EnginePanic as e:
                raise PanicException(str(e)) from None

        collect._pdtverif_tamed = True
        collect.__wrapped__ = orig
        pl.LazyFrame.collect = collect
    return pl


def pl_dtype(name):
    pl = _pl()
    return {
        "Int64": pl.Int64,
        "Int32": pl.Int32,
        "Int16": pl.Int16,
        "Int8": pl.Int8,
        "UInt8": pl.UInt8,
        "UInt16": pl.UInt16,
        "UInt32": pl.UInt32,
        "UInt64": pl.UInt64,
        "Float64": pl.Float64,
        "Float32": pl.Float32,
        "String": pl.String,
        "Bool": pl.Boolean,
        "Date": pl.Date,
        "Datetime": pl.Datetime("us"),
        "Null": pl.Null,
    }[name]


def sqa_type(name):
    import sqlalchemy as sqa

    return {
        "Int64": sqa.BigInteger,
        "Int32": sqa.Integer,
        "Int16": sqa.SmallInteger,
        "Int8": sqa.SmallInteger,
        "UInt8": sqa.SmallInteger,
        "UInt16": sqa.Integer,
        "UInt32": sqa.BigInteger,
        "UInt64": sqa.BigInteger,
        "Float64": sqa.Double,
        "Float32": sqa.Double,
        "String": sqa.String,
        "Bool": sqa.Boolean,
        "Date": sqa.Date,
        "Datetime": sqa.DateTime,
    }[name]


FAM_OF = {
    "Int64": "int",
    "Int32": "int",
    "Int16": "int",
    "Int8": "int",
    "UInt8": "int",
    "UInt16": "int",
    "UInt32": "int",
    "UInt64": "int",
    "Float64": "float",
    "Float32": "float",
    "String": "str",
    "Bool": "bool",
    "Date": "date",
    "Datetime": "datetime",
    "Null": "null",
}


def decode_cell(v, dtype):
    if v is None:
        return None
    if dtype == "Date":
        return _dt.date.fromisoformat(v) if isinstance(v, str) else v
    if dtype == "Datetime":
        return _dt.datetime.fromisoformat(v) if isinstance(v, str) else v
    if dtype in ("Float64", "Float32"):
        return float(v)
    return v


def table_rows(tspec):
    return [tuple(decode_cell(v, dt) for v, (_, dt) in zip(row, tspec["schema"])) for row in tspec["rows"]]


# ---------------------------------------------------------------------------------------------
# real backends
# ---------------------------------------------------------------------------------------------


class Backend:
    """One instantiation context: 'pol', 'sqlite', 'postgres', 'mssql'."""

    def __init__(self, kind):
        self.kind = kind
        self.engine = None
        self._n = 0
        if kind == "sqlite":
            from .env import sqlite_engine

            self.engine = sqlite_engine()
            M.SQL.attach(self.engine)
        elif kind in ("postgres", "mssql"):
            from .env import offline_engine

            self.engine = offline_engine(kind)

    def make_table(self, tspec):
        import pydiverse.transform as pdt

        pl = _pl()
        rows = table_rows(tspec)
        if self.kind == "pol":
            data = {cn: [r[j] for r in rows] for j, (cn, _) in enumerate(tspec["schema"])}
            df = pl.DataFrame(data, schema={cn: pl_dtype(dt) for cn, dt in tspec["schema"]})
            # C10: the user's frame must come out of every pipeline untouched (kept with a snapshot, see source_frame_problems)
            self.sources = getattr(self, "sources", [])[-8:] + [(tspec["name"], df, df.clone(), list(df.columns), dict(df.schema))]
            return pdt.Table(df, name=tspec["name"])
        import sqlalchemy as sqa

        self._n += 1
        md = sqa.MetaData()
        phys = f"{tspec['name']}"
        tb = sqa.Table(phys, md, *[sqa.Column(cn, sqa_type(dt)) for cn, dt in tspec["schema"]])
        if self.kind == "sqlite":
            with M.SQL.setup():
                with self.engine.begin() as conn:
                    conn.execute(sqa.text(f'DROP TABLE IF EXISTS "{phys}"'))
                    md.create_all(conn)
                    if rows:
                        conn.execute(tb.insert(), [dict(zip([c for c, _ in tspec["schema"]], r)) for r in rows])
        return pdt.Table(tb, pdt.SqlAlchemy(self.engine), name=tspec["name"])


class ExprBuilder:
    """Builds real column expressions through the public expression API."""

    def __init__(self, env, share_memo=None):
        self.env = env  # handle -> real Table
        self.share = share_memo if share_memo is not None else None

    def lit(self, e):
        ty = e.get("ty")
        v = e["v"]
        if ty == "date" and v is not None:
            return _dt.date.fromisoformat(v)
        if ty == "datetime" and v is not None:
            return _dt.datetime.fromisoformat(v)
        return v

    def order(self, o):
        x = self.b(o["e"], wrap=True)
        self.nord = getattr(self, "nord", 0) + 1
        if o.get("desc"):
            x = x.descending()
        elif self.nord % 3 == 0:
            x = x.ascending()  # the explicit spelling of the default
        if o.get("nl") is True:
            x = x.nulls_last()
        elif o.get("nl") is False:
            x = x.nulls_first()
        return x

    def ctx(self, e):
        kw = {}
        if e.get("pb") is not None:
            kw["partition_by"] = [self.b(p, wrap=True) for p in e["pb"]]
        if e.get("arr"):
            kw["arrange"] = [self.order(o) for o in e["arr"]]
        if e.get("flt"):
            kw["filter"] = [self.b(f, wrap=True) for f in e["flt"]]
        return kw

    def b(self, e, wrap=False):
        sh = e.get("sh")
        if sh is not None and self.share is not None and sh in self.share:
            return self.share[sh]
        r = self._b(e, wrap)
        if sh is not None and self.share is not None:
            self.share[sh] = r
        return r

    def _b(self, e, wrap):
        import pydiverse.transform as pdt

        k = e["k"]
        if k == "lit":
            v = self.lit(e)
            return pdt.lit(v) if (wrap or e.get("wrap")) else v
        if k == "col":
            # both documented spellings: t.x and t["x"] (attribute access only where the name cannot shadow an attribute)
            self.nref = getattr(self, "nref", 0) + 1
            t = self.env[e["t"]]
            if self.nref % 2 and e["n"].isidentifier() and not e["n"].startswith("_") and not hasattr(type(t), e["n"]):
                return getattr(t, e["n"])
            if self.nref % 6 == 0:
                return t[pdt.C[e["n"]]]  # third spelling: a ColName as key
            return t[e["n"]]
        if k == "c":
            self.nref = getattr(self, "nref", 0) + 1
            if self.nref % 2 and e["n"].isidentifier() and not e["n"].startswith("_"):
                return getattr(pdt.C, e["n"])
            return pdt.C[e["n"]]
        if k == "cast":
            return self.b(e["e"], wrap=True).cast(getattr(pdt, e["to"])())
        if k == "case":
            cases = e["cases"]
            w = pdt.when(self.b(cases[0][0], wrap=True)).then(self.b(cases[0][1]))
            for c, v in cases[1:]:
                w = w.when(self.b(c, wrap=True)).then(self.b(v))
            if e.get("default") is not None:
                w = w.otherwise(self.b(e["default"]))
            return w
        if k == "map":
            x = self.b(e["e"], wrap=True)
            mp = {}
            for key, val in e["m"]:
                kk = tuple(self.b(q) for q in key) if isinstance(key, list) else self.b(key)
                mp[kk] = self.b(val)
            if e.get("default") is not None:
                return x.map(mp, default=self.b(e["default"], wrap=True))
            return x.map(mp)
        if k == "fn":
            return self.fn(e)
        raise ValueError(k)

    def fn(self, e):
        import operator as op_

        import pydiverse.transform as pdt

        op = e["op"]
        a = e["a"]
        BIN = {
            "add": op_.add,
            "sub": op_.sub,
            "mul": op_.mul,
            "truediv": op_.truediv,
            "floordiv": op_.floordiv,
            "mod": op_.mod,
            "pow": op_.pow,
            "eq": op_.eq,
            "ne": op_.ne,
            "lt": op_.lt,
            "le": op_.le,
            "gt": op_.gt,
            "ge": op_.ge,
            "and": op_.and_,
            "or": op_.or_,
            "xor": op_.xor,
        }
        if op in BIN:
            l_is_lit = a[0]["k"] == "lit"
            r_is_lit = a[1]["k"] == "lit"
            # python reflected operators handle literal-on-the-left; two literals need pdt.lit
            x = self.b(a[0], wrap=(l_is_lit and r_is_lit) or (l_is_lit and op in ("eq", "ne", "lt", "le", "gt", "ge")))
            y = self.b(a[1])
            return BIN[op](x, y)
        if op == "neg":
            return -self.b(a[0], wrap=True)
        if op == "pos":
            return +self.b(a[0], wrap=True)
        if op == "invert":
            return ~self.b(a[0], wrap=True)
        HORIZ = {"coalesce": pdt.coalesce, "hmax": pdt.max, "hmin": pdt.min, "hsum": pdt.sum, "hany": pdt.any, "hall": pdt.all}
        if op in HORIZ:
            args = [self.b(x) for x in a]
            if all(x["k"] == "lit" for x in a):
                args[0] = self.b(a[0], wrap=True)
            return HORIZ[op](*args)
        kw = self.ctx(e)
        if op == "count_star":
            return pdt.count(**kw)
        if op in ("rank", "dense_rank") and len(e.get("arr") or ()) == 1 and not e.get("flt"):
            self.nrank = getattr(self, "nrank", 0) + 1
            if self.nrank % 2:
                # documented alias: <sort key>.rank(partition_by=...) is pdt.rank(arrange=<sort key>, partition_by=...)
                key = kw["arrange"][0]
                return getattr(key, op)(**({"partition_by": kw["partition_by"]} if "partition_by" in kw else {}))
        if op in ("row_number", "rank", "dense_rank"):
            return getattr(pdt, op)(**kw)
        x = self.b(a[0], wrap=True)
        rest = [self.b(q) for q in a[1:]]
        if op == "str.contains":
            return x.str.contains(rest[0], allow_regex=e.get("regex", False))
        if op.startswith("str."):
            return getattr(x.str, op[4:])(*rest, **kw)
        if op.startswith("dt."):
            return getattr(x.dt, op[3:])(*rest, **kw)
        return getattr(x, op)(*rest, **kw)


def source_frame_problems(backend, names):
    """The polars frames handed to Table(...) for the tables `names`: same columns, schema and cells as when they were made."""
    probs = []
    for name, df, snap, cols, schema in getattr(backend, "sources", []):
        if name not in names:
            continue
        if list(df.columns) != cols:
            probs.append(f"source frame of `{name}`: columns changed to {list(df.columns)}")
        elif dict(df.schema) != schema:
            probs.append(f"source frame of `{name}`: schema changed")
        elif not df.equals(snap):
            probs.append(f"source frame of `{name}`: cells changed")
    return probs


class RealRun:
    """Executes a program on one real backend. Records outcomes per step and per probe."""

    def __init__(self, program, backend: Backend, share=True):
        self.p = program
        self.be = backend
        self.env = {}
        self.share_memo = {} if share else None
        self.steps = []  # (step index, "ok" | ("raise", cls, msg))
        self.failed_handles = {}

    def builder(self):
        return ExprBuilder(self.env, self.share_memo)

    def setup_tables(self):
        names = [ts["name"] for ts in self.p["tables"]]
        assert len(set(names)) == len(names), f"harness: duplicate table names {names}"
        for ts in self.p["tables"]:
            self.env[ts["handle"]] = self.be.make_table(ts)

    def apply(self, st):
        """Apply one step through the public pipe API. Returns the new table (raises on error)."""
        import pydiverse.transform as pdt

        b = self.builder()
        t = self.env[st["in"]]
        v = st["verb"]
        if v == "select":
            return t >> pdt.select(*[b.b(e) for e in st["cols"]])
        if v == "drop":
            return t >> pdt.drop(*[b.b(e) for e in st["cols"]])
        if v == "rename":
            return t >> pdt.rename({(k if isinstance(k, str) else b.b(k)): n for k, n in st["map"]})
        if v == "mutate":
            return t >> pdt.mutate(**{n: b.b(e) for n, e in st["kw"]})
        if v == "filter":
            return t >> pdt.filter(*[b.b(e, wrap=True) for e in st["preds"]])
        if v == "arrange":
            return t >> pdt.arrange(*[b.order(o) for o in st["by"]])
        if v == "slice_head":
            return t >> pdt.slice_head(st["n"], offset=st.get("offset", 0))
        if v == "group_by":
            return t >> pdt.group_by(*[b.b(e) for e in st["cols"]], add=bool(st.get("add")))
        if v == "ungroup":
            return t >> pdt.ungroup()
        if v == "summarize":
            return t >> pdt.summarize(**{n: b.b(e) for n, e in st["kw"]})
        if v == "join":
            r = self.env[st["right"]]
            if "on_names" in st:
                on = list(st["on_names"]) if len(st["on_names"]) != 1 else st["on_names"][0]
            else:
                on = [b.b(e, wrap=True) for e in st["on"]]
            if st.get("cross"):
                return t >> pdt.cross_join(r, suffix=st.get("suffix"))
            if len(st["out"]) % 2:  # the convenience verbs are documented as equivalent spellings
                return t >> {"inner": pdt.inner_join, "left": pdt.left_join, "full": pdt.full_join}[st["how"]](r, on, suffix=st.get("suffix"))
            return t >> pdt.join(r, on, st["how"], suffix=st.get("suffix"))
        if v == "union":
            r = self.env[st["right"]]
            if st.get("direct"):
                return pdt.union(t, r, distinct=bool(st.get("distinct")))
            return t >> pdt.union(r, distinct=bool(st.get("distinct")))
        if v == "alias":
            if st.get("name") is not None:
                return t >> pdt.alias(st["name"], keep_col_refs=bool(st.get("keep")))
            return t >> pdt.alias(keep_col_refs=bool(st.get("keep")))
        if v == "collect":
            return t >> pdt.collect(keep_col_refs=st.get("keep", True))
        if v == "transfer":
            return pdt.transfer_col_references(t, self.env[st["ref"]])
        raise ValueError(v)

    def export(self, handle):
        import pydiverse.transform as pdt

        return self.env[handle] >> pdt.export(pdt.Polars())

    def build_query(self, handle):
        import pydiverse.transform as pdt

        return self.env[handle] >> pdt.build_query()


def exc_class(e: BaseException) -> str:
    return type(e).__name__


# ---------------------------------------------------------------------------------------------
# reference run
# ---------------------------------------------------------------------------------------------


class RefRun:
    def __init__(self, program, mode):
        self.p = program
        self.mode = mode
        self.env: dict[str, ref.RTable] = {}

    def setup_tables(self):
        for ts in self.p["tables"]:
            schema = [(cn, FAM_OF[dt]) for cn, dt in ts["schema"]]
            self.env[ts["handle"]] = ref.source_table(ts["name"], schema, table_rows(ts), self.mode)

    def apply(self, st, right_names=None):
        t = self.env[st["in"]]
        v = st["verb"]
        h = self.env
        m = self.mode
        if v == "select":
            return ref.v_select(t, st["cols"], h, m)
        if v == "drop":
            return ref.v_drop(t, st["cols"], h, m)
        if v == "rename":
            return ref.v_rename(t, st["map"], h, m)
        if v == "mutate":
            return ref.v_mutate(t, st["kw"], h, m)
        if v == "filter":
            return ref.v_filter(t, st["preds"], h, m)
        if v == "arrange":
            return ref.v_arrange(t, st["by"], h, m)
        if v == "slice_head":
            return ref.v_slice_head(t, st["n"], st.get("offset", 0), h, m)
        if v == "group_by":
            return ref.v_group_by(t, st["cols"], bool(st.get("add")), h, m)
        if v == "ungroup":
            return ref.v_ungroup(t, h, m)
        if v == "summarize":
            return ref.v_summarize(t, st["kw"], h, m)
        if v == "join":
            r = self.env[st["right"]]
            if "on_names" in st:
                on = [
                    {"k": "fn", "op": "eq", "a": [{"k": "col", "t": st["in"], "n": n}, {"k": "col", "t": st["right"], "n": n}]}
                    for n in st["on_names"]
                ]
                for n in st["on_names"]:
                    if n not in t.name_to_id() or n not in r.name_to_id():
                        raise ref.RefReject("ColumnNotFoundError|ValueError", "join on unknown name")
            else:
                on = st["on"]
            if right_names is None:
                right_names = predict_right_names(t, r, st, self.env)
            return ref.v_join(t, r, on, st["how"], right_names, h, m)
        if v == "union":
            return ref.v_union(t, self.env[st["right"]], bool(st.get("distinct")), h, m)
        if v == "alias":
            return ref.v_alias(t, bool(st.get("keep")), st.get("name"), h, m)
        if v == "collect":
            return ref.v_collect(t, st.get("keep", True), h, m)
        if v == "transfer":
            return ref.v_transfer(t, self.env[st["ref"]], h, m)
        raise ref.RefUnsupported(v)


def _walk(e):
    if isinstance(e, dict):
        if "k" in e:
            yield e
        for v in e.values():
            yield from _walk(v)
    elif isinstance(e, list):
        for v in e:
            yield from _walk(v)


def predict_right_names(left: ref.RTable, right: ref.RTable, st, handles=None):
    """REF's own prediction of the right names (documented rule, lowest free numeric suffix)."""
    ln = left.names()
    rn = right.names()
    suf = st.get("suffix")
    if suf:
        out = [n + suf for n in rn]
        if set(out) & set(ln):
            raise ref.RefReject("ValueError", "user suffix collides")
        return out
    coll = set(ln) & set(rn)
    if not coll:
        return list(rn)
    base = "_" + right.name if right.name else "_right"
    # names of the right columns that occur in the join condition
    rids = {i: n for n, i in right.vis}
    right_on = set()
    if "on_names" in st:
        right_on = set(st["on_names"])
    else:
        for nd in _walk(st.get("on", [])):
            if nd.get("k") == "col" and nd["t"] in (handles or {}):
                cid = handles[nd["t"]].name_to_id().get(nd["n"])
                if cid in rids:
                    right_on.add(rids[cid])
    # documented rule: if nothing except join columns clashes, only the clashing columns are renamed
    only_clashing = not ((set(rn) - right_on) & set(ln))
    targets = [n for n in rn if (n in coll or not only_clashing)]
    cnt = 0
    while True:
        s = base + (f"_{cnt}" if cnt else "")
        new = [(n + s if (n in targets) else n) for n in rn]
        if not (set(new) & set(ln)) and len(set(new)) == len(new):
            return new
        cnt += 1
        if cnt > 50:
            raise ref.RefUnsupported("no suffix found")


def dumps(obj):
    return json.dumps(obj, default=str, sort_keys=True)


_pl()  # install the panic taming as soon as the drivers are loaded
