"""Seeded generators of programs (pure data). The generator drives REF (pol mode) incrementally so
that it always knows the visible / hidden columns, their families, the grouping state and which
column references (through *any* earlier table handle) are still in scope — this is what keeps
>90% of the generated steps well-typed without making hostile constructs unreachable.
"""

from __future__ import annotations

import datetime as _dt
import random

from . import ref
from .drive import FAM_OF, RefRun

STR_POOL = ["a", "b", "ab", "A", "a%", "_b", "", " x", "zz", "é", "b'c", "10", "a\\b"]
INT_POOL = [-65, -7, -3, -1, 0, 1, 2, 3, 7, 65]
FLOAT_POOL = [-2.5, -0.75, -0.125, 0.0, 0.5, 1.0, 1.25, 3.0, 7.5]
DATE_POOL = ["2020-02-29", "1999-12-31", "2024-01-01", "2021-07-15", "2000-03-01"]
DT_POOL = ["2020-02-29T13:45:10", "1999-12-31T23:59:59", "2024-01-01T00:00:00", "2021-07-15T08:05:00.250000"]


def lit(v, ty=None):
    d = {"k": "lit", "v": v}
    if ty:
        d["ty"] = ty
    return d


def fn(op, *a, **kw):
    d = {"k": "fn", "op": op, "a": list(a)}
    d.update({k: v for k, v in kw.items() if v is not None})
    return d


def col(t, n):
    return {"k": "col", "t": t, "n": n}


def cname(n):
    return {"k": "c", "n": n}


def has_col(e):
    if isinstance(e, dict):
        if e.get("k") in ("col", "c"):
            return True
        return any(has_col(v) for v in e.values())
    if isinstance(e, list):
        return any(has_col(v) for v in e)
    return False


class TableGen:
    def __init__(self, rng):
        self.rng = rng

    def shape(self):
        r = self.rng.random()
        if r < 0.06:
            return "empty", 0
        if r < 0.14:
            return "single", 1
        if r < 0.62:
            return "small_dups", self.rng.randint(2, 12)
        if r < 0.86:
            return "null_heavy", self.rng.randint(3, 14)
        return "tall", self.rng.randint(101, 220)

    def make(self, handle, name, shape=None, cols=None, nrows=None):
        rng = self.rng
        kind, n = self.shape() if shape is None else (shape, nrows)
        if n is None:
            n = {"empty": 0, "single": 1, "small_dups": 8, "null_heavy": 10, "tall": 120}[kind]
        cols = cols or ["k", "g", "x", "y", "f", "b", "s", "d"]
        dtype = {
            "k": "Int64",
            "g": "Int64",
            "x": "Int64",
            "y": "Int64",
            "f": "Float64",
            "b": "Bool",
            "s": "String",
            "d": "Date",
            "ts": "Datetime",
            "h": "String",
            "i8": "Int8",
            "i16": "Int16",
            "u8": "UInt8",
            "i32": "Int32",
            "f32": "Float32",
        }
        pnull = {"empty": 0.0, "single": 0.2, "small_dups": 0.15, "null_heavy": 0.5, "tall": 0.2}[kind]
        prefix = rng.randint(64, 130) if kind == "tall" else 0  # sometimes longer than the 100 rows engines sample for schema inference
        rows = []
        ks = list(range(1, n + 1))
        rng.shuffle(ks)
        for r in range(n):
            row = []
            for c in cols:
                isnull = (r < prefix and c not in ("k", "g")) or (c != "k" and rng.random() < pnull)
                if c == "k":
                    v = ks[r]
                elif isnull:
                    v = None
                elif c == "g":
                    v = rng.choice([1, 1, 2, 3])
                elif c in ("x", "y"):
                    v = rng.choice(INT_POOL) if rng.random() < 0.7 else rng.randint(-1000, 1000)
                elif c in ("i8", "i16", "u8"):
                    v = rng.choice([0, 1, 2, 3, 5] if c == "u8" else [-5, -1, 0, 1, 2, 3])
                elif c in ("i32",):
                    v = rng.choice([-70, -1, 0, 3, 65, 1000])
                elif c == "f32":
                    v = rng.choice([-2.5, -0.75, 0.0, 0.5, 1.25, 3.0])
                elif c in ("f", "f32"):
                    v = rng.choice(FLOAT_POOL) if rng.random() < 0.7 else rng.randint(-4000, 4000) / 8.0
                elif c == "b":
                    v = rng.random() < 0.5
                elif c in ("s", "h"):
                    v = rng.choice(STR_POOL)
                elif c == "d":
                    v = rng.choice(DATE_POOL)
                elif c == "ts":
                    v = rng.choice(DT_POOL)
                row.append(v)
            rows.append(row)
        return {
            "handle": handle,
            "name": name,
            "schema": [[c, dtype[c]] for c in cols],
            "rows": rows,
            "shape": kind,
        }


class ExprGen:
    """Well-typed expression trees over the columns currently in scope."""

    def __init__(self, rng, cfg=None):
        self.rng = rng
        self.cfg = cfg or {}
        self.sql_safe = self.cfg.get("sql_safe", True)
        self.lit_operand_ok = False  # set while the operand of an aggregate / window function is generated

    # scope: list of (exprjson, fam)
    def cols_of(self, scope, fam):
        return [e for e, f in scope if f == fam]

    def leaf(self, fam, scope, allow_lit=True):
        rng = self.rng
        cs = self.cols_of(scope, fam)
        if cs and (not allow_lit or rng.random() < 0.75):
            return rng.choice(cs)
        if fam == "int":
            return lit(rng.choice(INT_POOL))
        if fam == "float":
            return lit(rng.choice(FLOAT_POOL))
        if fam == "bool":
            return lit(rng.random() < 0.5)
        if fam == "str":
            return lit(rng.choice(STR_POOL))
        if fam == "date":
            return lit(rng.choice(DATE_POOL), "date")
        if fam == "datetime":
            return lit(rng.choice(DT_POOL), "datetime")
        raise ValueError(fam)

    def nonzero_int(self):
        return lit(self.rng.choice([-7, -3, -1, 1, 2, 3, 7]))

    def expr(self, fam, scope, depth):
        rng = self.rng
        if depth <= 0 or rng.random() < 0.15:
            return self.leaf(fam, scope)
        d = depth - 1
        if fam == "int":
            c = rng.random()
            if c < 0.30:
                return fn(rng.choice(["add", "sub", "mul"]), self.expr("int", scope, d), self.expr("int", scope, d))
            if c < 0.40:
                return fn(rng.choice(["floordiv", "mod"]), self.expr("int", scope, d), self.nonzero_int())
            if c < 0.46:
                return fn(rng.choice(["floordiv", "mod"]), self.expr("int", scope, d), self.expr("int", scope, d))
            if c < 0.54:
                return fn(rng.choice(["neg", "abs", "pos"]), self.colfirst("int", scope, d))
            if c < 0.60 and self.cols_of(scope, "str"):
                return fn("str.len", self.colfirst("str", scope, d))
            if c < 0.68:
                return fn(rng.choice(["hmax", "hmin"]), self.expr("int", scope, d), self.expr("int", scope, d))
            if c < 0.76:
                return fn(rng.choice(["coalesce", "fill_null"]), self.colfirst("int", scope, d), self.expr("int", scope, d))
            if c < 0.86:
                return self.case("int", scope, d)
            if c < 0.90 and self.cols_of(scope, "date"):
                return fn(rng.choice(["dt.year", "dt.month", "dt.day", "dt.day_of_year"]), rng.choice(self.cols_of(scope, "date")))
            if c < 0.94:
                return {"k": "cast", "e": self.colfirst("float", scope, 0) if self.cols_of(scope, "float") else lit(1.5), "to": "Int64"}
            if c < 0.97:
                return fn("add", self.colfirst("bool", scope, d), self.colfirst("bool", scope, d)) if self.cols_of(scope, "bool") else self.leaf("int", scope)
            return fn("clip", self.colfirst("int", scope, d), lit(-3), lit(7))
        if fam == "float":
            c = rng.random()
            if c < 0.30:
                return fn(rng.choice(["add", "sub", "mul"]), self.expr("float", scope, d), self.expr(rng.choice(["float", "float", "int"]), scope, d))
            if c < 0.42:
                num = rng.choice(["int", "float"])
                den = lit(rng.choice([-4.0, 0.5, 2.0, 8.0])) if num == "float" else self.nonzero_int()
                return fn("truediv", self.expr(num, scope, d), den)
            if c < 0.50:
                return fn(rng.choice(["neg", "abs"]), self.colfirst("float", scope, d))
            if c < 0.58:
                return fn(rng.choice(["floor", "ceil"]), self.colfirst("float", scope, d))
            if c < 0.64:
                return fn("round", self.colfirst("float", scope, d), lit(rng.choice([0, 1, 2])))
            if c < 0.70:
                return {"k": "cast", "e": self.colfirst("int", scope, d), "to": "Float64"}
            if c < 0.78:
                return fn(rng.choice(["coalesce", "fill_null"]), self.colfirst("float", scope, d), self.expr("float", scope, d))
            if c < 0.86:
                return self.case("float", scope, d)
            if c < 0.92:
                return fn(rng.choice(["hmax", "hmin"]), self.expr("float", scope, d), self.expr("float", scope, d))
            if c < 0.96:
                return fn("pow", self.colfirst(rng.choice(["int", "float"]), scope, 0), lit(rng.choice([2, 3])) if rng.random() < 0.5 else lit(2.0))
            return fn("sqrt", fn("abs", self.colfirst("float", scope, d)))
        if fam == "bool":
            c = rng.random()
            if c < 0.34:
                f2 = rng.choice(["int", "int", "float", "str"] + (["date"] if self.cols_of(scope, "date") else []))
                return fn(rng.choice(["eq", "ne", "lt", "le", "gt", "ge"]), self.colfirst(f2, scope, d), self.expr(f2, scope, d))
            if c < 0.52:
                return fn(rng.choice(["and", "or", "xor"]), self.expr("bool", scope, d), self.expr("bool", scope, d))
            if c < 0.60:
                return fn("invert", self.colfirst("bool", scope, d))
            if c < 0.72:
                f2 = rng.choice(["int", "float", "str", "bool"])
                return fn(rng.choice(["is_null", "is_not_null"]), self.colfirst(f2, scope, d))
            if c < 0.82:
                f2 = rng.choice(["int", "str"])
                vals = [self.leaf(f2, scope) if rng.random() < 0.3 else self.leaf(f2, [], True) for _ in range(rng.randint(1, 3))]
                return fn("is_in", self.colfirst(f2, scope, d), *vals)
            if c < 0.90 and self.cols_of(scope, "str"):
                return fn(
                    rng.choice(["str.starts_with", "str.ends_with", "str.contains"]),
                    self.colfirst("str", scope, d),
                    lit(rng.choice(["a", "b", "%", "_", "a%", "", "'"])),
                )
            if c < 0.95:
                return fn(rng.choice(["hany", "hall"]), self.expr("bool", scope, d), self.expr("bool", scope, d))
            return self.case("bool", scope, d)
        if fam == "str":
            c = rng.random()
            if c < 0.25:
                return fn("add", self.expr("str", scope, d), self.expr("str", scope, d))
            if c < 0.40:
                return fn(rng.choice(["str.upper", "str.lower", "str.strip"]), self.colfirst("str", scope, d))
            if c < 0.50:
                return fn("str.replace_all", self.colfirst("str", scope, d), lit(rng.choice(["a", "b", "%", "zz"])), lit(rng.choice(["", "X", "a'"])))
            if c < 0.58:
                return fn("str.slice", self.colfirst("str", scope, d), lit(rng.choice([0, 1, 2])), lit(rng.choice([0, 1, 3])))
            if c < 0.66:
                return {"k": "cast", "e": self.colfirst("int", scope, d), "to": "String"}
            if c < 0.78:
                return fn(rng.choice(["coalesce", "fill_null"]), self.colfirst("str", scope, d), self.expr("str", scope, d))
            if c < 0.90:
                return self.case("str", scope, d)
            return fn(rng.choice(["hmax", "hmin"]), self.expr("str", scope, d), self.expr("str", scope, d))
        if fam in ("date", "datetime"):
            c = rng.random()
            if c < 0.3:
                return fn("coalesce", self.colfirst(fam, scope, d), self.leaf(fam, scope))
            if c < 0.5:
                return self.case(fam, scope, d)
            if c < 0.6 and fam == "datetime" and self.cols_of(scope, "date"):
                return {"k": "cast", "e": rng.choice(self.cols_of(scope, "date")), "to": "Datetime"}
            if c < 0.7 and fam == "date" and self.cols_of(scope, "datetime"):
                return {"k": "cast", "e": rng.choice(self.cols_of(scope, "datetime")), "to": "Date"}
            return self.leaf(fam, scope)
        raise ValueError(fam)

    def nonconst(self, fam, scope, depth):
        """An expression that references at least one column."""
        for _ in range(6):
            e = self.expr(fam, scope, depth)
            if has_col(e):
                return e
        cs = self.cols_of(scope, fam)
        if cs:
            return self.rng.choice(cs)
        if fam == "bool" and scope:
            return fn("is_not_null", self.rng.choice(scope)[0])
        return e

    def colfirst(self, fam, scope, depth):
        """An expression whose leftmost leaf is not a literal when a column is available (keeps
        python operator dispatch on the ColExpr side and avoids all-constant expressions)."""
        cs = self.cols_of(scope, fam)
        if not cs:
            return self.expr(fam, scope, 0)
        if self.lit_operand_ok and fam in ("int", "float", "bool", "str") and self.rng.random() < 0.06:
            # the operand of an aggregate / window function may be a literal: one value per row of the group
            return lit(self.leaf(fam, [], True)["v"]) | {"wrap": True}
        if depth <= 0 or self.rng.random() < 0.5:
            return self.rng.choice(cs)
        return self.nonconst(fam, scope, depth)

    def case(self, fam, scope, d):
        rng = self.rng
        n = rng.randint(1, 2)
        # for a float result, the branches may be narrower (int / null) than the default and vice versa:
        # the static type must be the common supertype of *all* branches (C12)
        def val(is_default=False):
            if fam == "float" and rng.random() < 0.35:
                return self.expr("int", scope, d)
            if rng.random() < 0.08:
                return lit(None)
            return self.expr(fam, scope, d)

        cases = [[self.expr("bool", scope, d), val()] for _ in range(n)]
        if fam == "float" and all(self._fam_guess(v) != "float" for _c, v in cases):
            default = self.expr("float", scope, d)
        else:
            default = val(True) if rng.random() < 0.7 else (lit(None) if rng.random() < 0.3 else None)
        def is_null(v):
            return v is None or (v.get("k") == "lit" and v.get("v") is None)

        if all(is_null(v) for _c, v in cases) and is_null(default):
            default = self.expr(fam, scope, d)  # a case expression needs one non-null branch to have a type
        return {"k": "case", "cases": cases, "default": default}

    def _fam_guess(self, e):
        """Cheap syntactic guess whether an expression is float-typed (only used to keep one float branch)."""
        k = e.get("k")
        if k == "lit":
            return "float" if isinstance(e.get("v"), float) else "other"
        if k == "fn" and e["op"] in ("truediv", "floor", "ceil", "pow", "sqrt", "mean"):
            return "float"
        if k == "cast":
            return "float" if e["to"].startswith("Float") else "other"
        return "unknown"

    # ---- aggregates / windows -------------------------------------------------------------
    def agg(self, scope, depth, allow_filter=True, pb=None, want=None):
        self.lit_operand_ok = True
        try:
            return self._agg(scope, depth, allow_filter, pb, want)
        finally:
            self.lit_operand_ok = False

    def _agg(self, scope, depth, allow_filter=True, pb=None, want=None):
        rng = self.rng
        choices = ["sum", "mean", "min", "max", "count", "count_star", "any", "all"]
        op = rng.choice(choices)
        kw = {}
        if allow_filter and rng.random() < 0.3:
            kw["flt"] = [self.nonconst("bool", scope, 1)]
            if rng.random() < 0.35:
                kw["flt"].append(self.nonconst("bool", scope, 1))  # several conditions are AND-ed
        if pb is not None:
            kw["pb"] = pb
        if op == "count_star":
            return fn(op, **kw), "int"
        have = lambda fams: [f for f in fams if self.cols_of(scope, f)]  # noqa: E731
        if op in ("any", "all"):
            if not have(["bool"]):
                return fn("count_star", **kw), "int"
            return fn(op, self.colfirst("bool", scope, depth), **kw), "bool"
        if op == "count":
            fs = have(["int", "float", "str", "bool"])
            if not fs:
                return fn("count_star", **kw), "int"
            return fn(op, self.colfirst(rng.choice(fs), scope, depth), **kw), "int"
        if op == "mean":
            fs = have(["int", "float"])
            if not fs:
                return fn("count_star", **kw), "int"
            return fn(op, self.colfirst(rng.choice(fs), scope, depth), **kw), "float"
        if op == "sum":
            fs = have(["int", "float", "int", "bool"])
            if not fs:
                return fn("count_star", **kw), "int"
            f = rng.choice(fs)
            return fn(op, self.colfirst(f, scope, depth), **kw), ("int" if f == "bool" else f)
        fs = have(["int", "float", "str", "date"])
        if not fs:
            return fn("count_star", **kw), "int"
        f = rng.choice(fs)
        return fn(op, self.colfirst(f, scope, depth), **kw), f

    def agg_expr(self, scope, depth, group_cols=(), allow_filter=True, pb=None):
        """Aggregate, or arithmetic over aggregates / group columns / literals."""
        rng = self.rng
        a, fam = self.agg(scope, depth, allow_filter, pb)
        r = rng.random()
        if r < 0.55 or fam not in ("int", "float"):
            return a, fam
        if r < 0.8:
            b, fb = self.agg(scope, 0, allow_filter, pb)
            if fb in ("int", "float"):
                return fn(rng.choice(["add", "sub"]), a, b), ("float" if "float" in (fam, fb) else "int")
            return a, fam
        if r < 0.9 and group_cols:
            ints = [e for e, f in group_cols if f == "int"]
            if ints:
                return fn("add", a, rng.choice(ints)), fam
        return fn("mul", a, lit(2)), fam

    def orders(self, scope, total_key=None, p_total=0.8, allow_unmarked=True):
        rng = self.rng
        keys = []
        for _ in range(rng.randint(1, 2)):
            f = rng.choice(["int", "int", "float", "str", "bool"])
            cs = self.cols_of(scope, f)
            if not cs:
                continue
            e = rng.choice(cs) if rng.random() < 0.8 else self.nonconst(f, scope, 1)
            nl = rng.choice([True, False, None]) if allow_unmarked else rng.choice([True, False])
            if nl is None and rng.random() < 0.7:
                nl = rng.choice([True, False])
            keys.append({"e": e, "desc": rng.random() < 0.4, "nl": nl})
        if total_key is not None and (not keys or rng.random() < p_total):
            keys.append({"e": total_key, "desc": rng.random() < 0.3, "nl": None})
        return keys

    def window(self, scope, depth, total_key=None, pb=None, need_arrange=True):
        self.lit_operand_ok = True
        try:
            return self._window(scope, depth, total_key, pb, need_arrange)
        finally:
            self.lit_operand_ok = False

    def _window(self, scope, depth, total_key=None, pb=None, need_arrange=True):
        rng = self.rng
        op = rng.choice(["row_number", "rank", "dense_rank", "shift", "cum_sum"])
        kw = {}
        if pb is not None:
            kw["pb"] = pb
        if need_arrange or op in ("rank", "dense_rank", "cum_sum") or rng.random() < 0.7:
            kw["arr"] = self.orders(scope, total_key)
            if not kw["arr"]:
                anyc = [e for e, f in scope if f in ("int", "float", "str", "bool")]
                if total_key is None and not anyc:
                    return fn("count_star", pb=pb), "int"
                kw["arr"] = [{"e": total_key or rng.choice(anyc), "desc": False, "nl": None if total_key else True}]
        if op in ("row_number", "rank", "dense_rank"):
            return fn(op, **kw), "int"
        if op == "shift":
            # every column type can be shifted (the static type of the result is the argument's type)
            fs = [f for f in ["int", "float", "str", "int", "bool", "date", "datetime"] if self.cols_of(scope, f)]
            if not fs:
                return fn("row_number", **kw), "int"
            f = rng.choice(fs)
            x = self.colfirst(f, scope, depth)
            n = rng.choice([-2, -1, 1, 2])
            fill = self.leaf(f, [], True) if rng.random() < 0.4 else lit(None)
            return fn(op, x, lit(n), fill, **kw), f
        fs = [f for f in ["int", "float"] if self.cols_of(scope, f)]
        if not fs:
            return fn("row_number", **kw), "int"
        f = rng.choice(fs)
        return fn(op, self.colfirst(f, scope, depth), **kw), f


class ProgGen:
    """Builds a program step by step; REF (pol mode) tells what is in scope."""

    def __init__(self, seed, cfg=None):
        self.rng = random.Random(seed)
        self.cfg = cfg or {}
        self.tg = TableGen(self.rng)
        self.eg = ExprGen(self.rng, cfg)
        self.tables = []
        self.steps = []
        self.nh = 0
        self.prog = {"tables": self.tables, "steps": self.steps, "meta": {"seed": seed}}
        self.rr = RefRun(self.prog, "pol")
        self.refs = {}  # handle -> list[(name, id)] snapshot of visible cols at creation
        self.features = set()
        self.names_used = 0
        self.pool = []  # (expression node with a share id, family): reused as ONE python object in later verbs
        self.nshare = 0

    # -- handles -------------------------------------------------------------------------
    def new_handle(self):
        h = f"T{self.nh}"
        self.nh += 1
        return h

    def add_table(self, name, **kw):
        h = self.new_handle()
        ts = self.tg.make(h, name, **kw)
        self.tables.append(ts)
        schema = [(cn, FAM_OF[dt]) for cn, dt in ts["schema"]]
        from .drive import table_rows

        self.rr.env[h] = ref.source_table(name, schema, table_rows(ts), "pol")
        self.refs[h] = list(self.rr.env[h].vis)
        return h

    def add_table_like(self, like_h, name, change=("y",), keep_rows=None):
        """A source table with the rows of an existing source table in which only the columns `change` differ:
        projections onto the other columns contain duplicates that whole rows do not."""
        src = next(t for t in self.tables if t["handle"] == like_h)
        h = self.new_handle()
        rows = [list(r) for r in src["rows"]]
        if keep_rows is not None:
            rows = rows[:keep_rows]
        names = [cn for cn, _ in src["schema"]]
        for r in rows:
            for c in change:
                j = names.index(c)
                r[j] = 0 if r[j] is None else r[j] + 1
        ts = {"handle": h, "name": name, "schema": [list(x) for x in src["schema"]], "rows": rows, "shape": "like:" + src.get("shape", "")}
        self.tables.append(ts)
        schema = [(cn, FAM_OF[dt]) for cn, dt in ts["schema"]]
        from .drive import table_rows

        self.rr.env[h] = ref.source_table(name, schema, table_rows(ts), "pol")
        self.refs[h] = list(self.rr.env[h].vis)
        return h

    def scope(self, h, visible_only=False, c_prob=0.2):
        """References valid on table `h`: through any earlier handle whose column id is still in scope,
        or by name via C."""
        t = self.rr.env[h]
        self._scope_tbl = t
        if self.cfg.get("c_only"):
            # name based references only: they survive an inserted alias() (C08 repair runs)
            return [(cname(n), t.cols[i].fam) for n, i in t.vis]
        out = []
        vis_ids = {i for _, i in t.vis}
        seen = set()
        for hh, lst in self.refs.items():
            for n, i in lst:
                if i in t.cols and (not visible_only or i in vis_ids):
                    # prefer the most recent handle with some probability, but keep old ones (C09)
                    out.append((col(hh, n), t.cols[i].fam, i))
        # thin out: at most 2 references per id
        by_id = {}
        for e, f, i in out:
            by_id.setdefault(i, []).append((e, f))
        res = []
        for i, lst in by_id.items():
            self.rng.shuffle(lst)
            res.extend(lst[:2])
        for n, i in t.vis:
            if self.rng.random() < c_prob:
                res.append((cname(n), t.cols[i].fam))
        _ = seen
        return res

    def total_key(self, h):
        """A reference to the unique key column `k` if it is still in scope (visible or hidden)."""
        t = self.rr.env[h]
        if self.cfg.get("c_only"):
            for n, i in t.vis:
                if t.cols[i].name0 == "k":
                    return cname(n)
            return None
        for hh, lst in self.refs.items():
            for n, i in lst:
                if n == "k" and i in t.cols and t.cols[i].name0 == "k":
                    return col(hh, n)
        return None

    def try_step(self, st):
        """Apply to REF; returns True if accepted and in domain."""
        try:
            new = self.rr.apply(st)
        except (ref.DomainExcluded, ref.RefReject, ref.RefUnsupported, KeyError):
            return False
        self.rr.env[st["out"]] = new
        self.refs[st["out"]] = list(new.vis)
        self.steps.append(st)
        return True

    def fresh_name(self, t, p_overwrite=0.25):
        rng = self.rng
        names = t.names()
        if names and rng.random() < p_overwrite:
            return rng.choice(names)
        for _ in range(20):
            n = rng.choice(["y", "z", "w", "v", "u2", "p", "q", "m", "n2"])
            if n not in names:
                return n
        self.names_used += 1
        return f"c{self.names_used}"

    # -- verbs ---------------------------------------------------------------------------
    def step_mutate(self, h, kinds=("e",), depth=2):
        rng = self.rng
        t = self.rr.env[h]
        sc = self.scope(h)
        kw = []
        used = set()
        for _ in range(rng.randint(1, 3)):
            kind = rng.choice(kinds)
            fam = rng.choice(["int", "int", "float", "bool", "str"])
            if kind == "e":
                e = self.shared_or_new(fam, sc, depth)
            elif kind == "a":
                pb = None
                if rng.random() < 0.4 and not t.group:
                    vis = self.scope(h, visible_only=True, c_prob=0)
                    gcs = [x for x, f in vis if f in ("int", "bool", "str")]
                    if gcs:
                        pb = [rng.choice(gcs)]
                e, fam = self.eg.agg_expr(sc, 1, pb=pb)
                self.features.add("agg_in_mutate")
            else:
                pb = None
                if rng.random() < 0.4 and not t.group:
                    gcs = [x for x, f in sc if f in ("int", "bool", "str")]
                    if gcs:
                        pb = [rng.choice(gcs)]
                e, fam = self.eg.window(sc, 1, total_key=self.total_key(h), pb=pb, need_arrange=rng.random() < 0.75)
                self.features.add("window")
            n = self.fresh_name(t)
            if n in used:
                continue
            used.add(n)
            kw.append([n, e])
        if not kw:
            return None
        return {"in": h, "out": self.new_handle(), "verb": "mutate", "kw": kw}

    def shared_or_new(self, fam, sc, depth):
        """Either a fresh expression or one that an earlier verb already used (same object, C10 / C02)."""
        rng = self.rng
        scfam = {}
        for x, f in sc:
            scfam[(x["k"], x.get("t"), x["n"])] = f

        def leaves(e):
            if isinstance(e, dict):
                if e.get("k") in ("col", "c"):
                    yield (e["k"], e.get("t"), e["n"])
                for v in e.values():
                    yield from leaves(v)
            elif isinstance(e, list):
                for v in e:
                    yield from leaves(v)

        # a pooled expression may be reused only where all its leaves still have the family they had (REF does not type check)
        cands = [e for e, f, sig in self.pool if f == fam and all((scfam.get(k) or (self._leaf_fam(k) if k[0] == "col" else None)) == ff for k, ff in sig.items())]
        if cands and rng.random() < 0.25:
            self.features.add("shared_expr")
            return rng.choice(cands)
        e = self.eg.expr(fam, sc, depth)
        if e.get("k") in ("fn", "case", "cast") and rng.random() < 0.3:
            sig = {}
            okk = True
            for k in leaves(e):
                ff = scfam.get(k) or (self._leaf_fam(k) if k[0] == "col" else None)
                if ff is None:
                    okk = False
                sig[k] = ff
            if okk:
                self.nshare += 1
                e["sh"] = self.nshare
                self.pool.append((e, fam, sig))
        return e

    def _leaf_fam(self, k):
        """Family of the column a handle reference denotes *in the table the expression is generated for* (a union may
        have widened it since the reference was taken)."""
        try:
            t = self.rr.env[k[1]]
            cid = t.name_to_id()[k[2]]
            cur = getattr(self, "_scope_tbl", None)
            if cur is not None and cid in cur.cols:
                return cur.cols[cid].fam
            return t.cols[cid].fam
        except Exception:
            return None

    def step_filter(self, h, depth=2):
        sc = self.scope(h)
        n = self.rng.choice([1, 1, 1, 2, 0]) if self.rng.random() < 0.9 else 3
        return {"in": h, "out": self.new_handle(), "verb": "filter", "preds": [self.shared_or_new("bool", sc, depth) for _ in range(n)]}

    def step_select(self, h):
        rng = self.rng
        vis = self.scope(h, visible_only=True, c_prob=0.3)
        t = self.rr.env[h]
        # one reference per visible id
        idn = t.id_to_name()
        per = {}
        for item in vis:
            e = item[0]
            if e["k"] == "c":
                per.setdefault(t.name_to_id()[e["n"]], []).append(e)
            else:
                cid = self.rr.env[e["t"]].name_to_id()[e["n"]]
                per.setdefault(cid, []).append(e)
        ids = [i for i in per if i in idn]
        if not ids:
            return None
        # keep grouping columns selected (group_by of a hidden column is refused later)
        keep = rng.sample(ids, rng.randint(1, len(ids)))
        if rng.random() < 0.75:
            # mostly keep the grouping columns selected (a later summarize / collect needs them visible); sometimes
            # they are hidden: window functions and aggregates in mutate keep using them
            for g in t.group:
                if g not in keep and g in per:
                    keep.append(g)
        elif t.group:
            self.features.add("hidden_grouping_column")
        tk = [i for i in ids if t.cols[i].name0 == "k"]
        if tk and rng.random() < 0.7 and tk[0] not in keep:
            keep.append(tk[0])
        rng.shuffle(keep)
        verb = "select"
        cols = [rng.choice(per[i]) for i in keep]
        if rng.random() < 0.3:
            verb = "drop"
            dropped = [i for i in ids if i not in keep]
            if not dropped:
                return None
            cols = [rng.choice(per[i]) for i in dropped]
        return {"in": h, "out": self.new_handle(), "verb": verb, "cols": cols}

    def step_rename(self, h):
        rng = self.rng
        t = self.rr.env[h]
        names = t.names()
        if not names:
            return None
        k = rng.randint(1, min(3, len(names)))
        chosen = rng.sample(names, k)
        mp = []
        if k >= 2 and rng.random() < 0.3:
            # swap
            mp = [[chosen[0], chosen[1]], [chosen[1], chosen[0]]]
        else:
            hidden_names = [c.name0 for i, c in t.cols.items() if i not in {j for _, j in t.vis}]
            for n in chosen:
                cand = rng.choice(["r1", "r2", "r3", n + "_r"] + hidden_names[:2])
                if cand in names or cand in [m[1] for m in mp]:
                    cand = n + "_r"
                    if cand in names:
                        continue
                mp.append([n, cand])
        if not mp:
            return None
        if rng.random() < 0.3:
            idm = t.name_to_id()
            vis = self.scope(h, visible_only=True, c_prob=0)
            for m in mp:
                for e, _f in vis:
                    if e["k"] == "col" and self.rr.env[e["t"]].name_to_id().get(e["n"]) == idm[m[0]]:
                        m[0] = e
                        break
        return {"in": h, "out": self.new_handle(), "verb": "rename", "map": mp}

    def step_arrange(self, h, p_total=0.8):
        sc = self.scope(h)
        by = self.eg.orders(sc, self.total_key(h), p_total=p_total)
        if not by:
            return None
        return {"in": h, "out": self.new_handle(), "verb": "arrange", "by": by}

    def step_slice(self, h):
        rng = self.rng
        t = self.rr.env[h]
        n = rng.choice([0, 1, 2, 3, 5, 50, max(t.n, 1)])
        off = rng.choice([0, 0, 0, 1, 2, max(t.n - 1, 0), t.n + 2])
        return {"in": h, "out": self.new_handle(), "verb": "slice_head", "n": n, "offset": off}

    def step_group_by(self, h):
        rng = self.rng
        vis = self.scope(h, visible_only=True, c_prob=0.2)
        cands = [e for e, f in vis if f in ("int", "bool", "str")]
        # avoid grouping by the unique key most of the time
        if not cands:
            return None
        k = rng.choice([1, 1, 2])
        cols = []
        seen = set()
        t = self.rr.env[h]
        for e in rng.sample(cands, min(k, len(cands))):
            cid = t.name_to_id()[e["n"]] if e["k"] == "c" else self.rr.env[e["t"]].name_to_id()[e["n"]]
            if cid in seen:
                continue
            if t.cols[cid].name0 == "k" and rng.random() < 0.8:
                continue
            seen.add(cid)
            cols.append(e)
        if not cols:
            return None
        return {"in": h, "out": self.new_handle(), "verb": "group_by", "cols": cols, "add": bool(t.group) and rng.random() < 0.5}

    def step_ungroup(self, h):
        return {"in": h, "out": self.new_handle(), "verb": "ungroup"}

    def step_summarize(self, h):
        rng = self.rng
        t = self.rr.env[h]
        sc = self.scope(h)
        gcols = [(e, f) for e, f in sc if (e["k"] == "col" and self.rr.env[e["t"]].name_to_id()[e["n"]] in t.group)]
        kw = []
        used = set()
        for _ in range(rng.randint(1, 3)):
            e, _fam = self.eg.agg_expr(sc, 1, group_cols=gcols)
            n = self.fresh_name(t, p_overwrite=0.15)
            if n in used:
                continue
            used.add(n)
            kw.append([n, e])
        if gcols and rng.random() < 0.3:
            # grouping keys may be used without an aggregate: alone, under a cast, in arithmetic, next to an aggregate
            key, kf_ = rng.choice(gcols)
            a, fam = self.eg.agg(sc, 0, False, None)
            if kf_ == "int":
                forms = [key, {"k": "cast", "e": key, "to": rng.choice(["Float64", "String", "Int32"])}, fn("add", key, lit(1)),
                         fn("mul", {"k": "cast", "e": key, "to": "Float64"}, lit(0.5))]
                if fam in ("int", "float"):
                    forms += [fn("add", {"k": "cast", "e": key, "to": "Float64"}, a), fn("add", {"k": "cast", "e": fn("mul", key, lit(2)), "to": "Int32"}, a) if fam == "int" else fn("sub", a, key)]
            elif kf_ == "bool":
                forms = [key, {"k": "cast", "e": key, "to": "Int64"}, fn("invert", key)]
            elif kf_ == "str":
                forms = [key, fn("str.len", key), fn("add", key, lit("!"))]
            else:
                forms = [key]
            n = self.fresh_name(t, p_overwrite=0.0)
            if n not in used:
                kw.append([n, rng.choice(forms)])
                self.features.add("group_key_in_summarize")
        return {"in": h, "out": self.new_handle(), "verb": "summarize", "kw": kw}

    def step_alias(self, h, keep=None):
        rng = self.rng
        keep = (rng.random() < 0.3) if keep is None else keep
        st = {"in": h, "out": self.new_handle(), "verb": "alias", "keep": keep}
        if rng.random() < 0.3:
            st["name"] = rng.choice(["al", "w1", "sub"])
        return st

    def step_join(self, h, right_h, how=None):
        rng = self.rng
        lt, rt = self.rr.env[h], self.rr.env[right_h]
        how = how or rng.choice(["inner", "left", "full", "inner", "left"])
        lsc = self.scope(h, c_prob=0)
        rsc = self.scope(right_h, c_prob=0)
        st = {"in": h, "out": self.new_handle(), "verb": "join", "right": right_h, "how": how}
        common = [n for n in lt.names() if n in rt.names() and lt.cols[lt.name_to_id()[n]].fam == rt.cols[rt.name_to_id()[n]].fam and lt.cols[lt.name_to_id()[n]].fam in ("int", "str", "bool")]
        r = rng.random()
        if r < 0.25 and common:
            st["on_names"] = rng.sample(common, 1)
        elif r < 0.33 and how == "inner":
            st["on"] = []
            st["cross"] = True
        else:
            preds = []
            used_pairs = set()
            for _ in range(rng.choice([1, 1, 2])):
                f = rng.choice(["int", "int", "str"])
                ls = [e for e, ff in lsc if ff == f]
                rs = [e for e, ff in rsc if ff == f]
                if not ls or not rs:
                    continue
                op = "eq" if (how == "full" or rng.random() < 0.75) else rng.choice(["lt", "le", "gt", "ge"])
                le_, re_ = rng.choice(ls), rng.choice(rs)
                pair = (self._cid(le_), self._cid(re_))
                if pair[0] in used_pairs or pair[1] in used_pairs:
                    continue  # D20: Polars cannot use one key column in two join predicates
                used_pairs.update(pair)
                # C.<name> inside `on` is looked up in the left table, then in the right one; a name visible in
                # both is rejected as ambiguous (rarely generated on purpose)
                lv, rv = set(lt.names()), set(rt.names())
                if le_["n"] in lv and lt.name_to_id()[le_["n"]] == pair[0] and rng.random() < 0.25 and (le_["n"] not in rv or rng.random() < 0.1):
                    le_ = cname(le_["n"])
                    self.features.add("c_in_on")
                if re_["n"] in rv and rt.name_to_id()[re_["n"]] == pair[1] and re_["n"] not in lv and rng.random() < 0.25:
                    re_ = cname(re_["n"])
                    self.features.add("c_in_on")
                if op == "eq" and f == "int" and rng.random() < 0.2:
                    re_ = fn("add", re_, lit(rng.choice([0, 1])))
                preds.append(fn(op, le_, re_) if rng.random() < 0.8 else fn({"lt": "gt", "gt": "lt", "le": "ge", "ge": "le", "eq": "eq"}[op], re_, le_))
            if not preds:
                return None
            st["on"] = preds
        if rng.random() < 0.25:
            st["suffix"] = rng.choice(["_u", "_right", "_x"])
        return st

    def _cid(self, e):
        return self.rr.env[e["t"]].name_to_id()[e["n"]]

    def step_union(self, h, right_h):
        return {"in": h, "out": self.new_handle(), "verb": "union", "right": right_h, "distinct": self.rng.random() < 0.4,
                "direct": self.rng.random() < 0.2}

    # -- whole programs ------------------------------------------------------------------
    def chain(self, h, nverbs, weights, depth=2, p_total=0.8):
        """Random chain of single-table verbs starting at handle h; returns the final handle."""
        rng = self.rng
        verbs, ws = zip(*weights.items())
        tries = 0
        made = 0
        while made < nverbs and tries < nverbs * 6:
            tries += 1
            t = self.rr.env[h]
            v = rng.choices(verbs, ws)[0]
            st = None
            if v == "mutate":
                st = self.step_mutate(h, ("e",), depth)
            elif v == "mutate_agg":
                st = self.step_mutate(h, ("a", "e"), depth)
            elif v == "mutate_win":
                st = self.step_mutate(h, ("w", "e"), depth)
            elif v == "filter":
                st = self.step_filter(h, depth)
            elif v == "select":
                st = self.step_select(h)
            elif v == "rename":
                st = self.step_rename(h)
            elif v == "arrange":
                st = self.step_arrange(h, p_total)
            elif v == "slice_head":
                st = self.step_slice(h) if not t.group else None
            elif v == "group_by":
                st = self.step_group_by(h)
            elif v == "ungroup":
                st = self.step_ungroup(h) if t.group else None
            elif v == "summarize":
                st = self.step_summarize(h)
            elif v == "alias":
                st = self.step_alias(h)
            if st is None:
                continue
            if self.try_step(st):
                h = st["out"]
                made += 1
            else:
                self.nh -= 1  # reuse the handle number
        return h

    def finish(self, probes):
        self.prog["probes"] = probes
        self.prog["meta"]["features"] = sorted(self.features)
        return self.prog


ROWVERB_WEIGHTS = {"mutate": 4, "filter": 3, "select": 2, "rename": 2, "arrange": 2, "slice_head": 1.5, "group_by": 0.7, "ungroup": 0.7, "alias": 0.6}
ALL_WEIGHTS = {
    "mutate": 3,
    "mutate_agg": 1.2,
    "mutate_win": 1.5,
    "filter": 3,
    "select": 1.5,
    "rename": 1.5,
    "arrange": 2.5,
    "slice_head": 1.2,
    "group_by": 1.5,
    "ungroup": 0.8,
    "summarize": 1.5,
    "alias": 1.0,
}


def reuse_block(g, h):
    """One expression OBJECT with a C.<name> leaf used in two verb calls between which the meaning of the name
    changes (overwrite / rename swap) — the second use must see the table as it is then."""
    rng = g.rng
    t = g.rr.env[h]
    ints = [n for n, i in t.vis if t.cols[i].fam == "int"]
    if len(ints) < 2:
        return h
    n, m = rng.sample(ints, 2)
    g.nshare += 1
    form = rng.choice(["overwrite_twice", "filter_mutate_filter", "rename_swap", "other_verb"])
    if form == "overwrite_twice":
        d = fn(rng.choice(["add", "mul", "sub"]), cname(n), lit(rng.choice([1, 2, 3])), sh=g.nshare)
        steps = [{"verb": "mutate", "kw": [[n, d]]}, {"verb": "mutate", "kw": [[n, d]]}]
    elif form == "filter_mutate_filter":
        p = fn(rng.choice(["gt", "lt", "ge"]), cname(n), lit(rng.choice([-1, 0, 2])), sh=g.nshare)
        steps = [{"verb": "filter", "preds": [p]}, {"verb": "mutate", "kw": [[n, fn("sub", cname(n), lit(2))]]}, {"verb": "filter", "preds": [p]}]
    elif form == "rename_swap":
        i = fn("add", cname(n), lit(1), sh=g.nshare)
        steps = [{"verb": "mutate", "kw": [["ru1", i]]}, {"verb": "rename", "map": [[n, m], [m, n]]}, {"verb": "mutate", "kw": [["ru2", i]]}]
    else:
        i = fn("mul", cname(n), cname(m), sh=g.nshare)
        steps = [{"verb": "arrange", "by": [{"e": i, "desc": False, "nl": True}]}, {"verb": "mutate", "kw": [[m, fn("neg", cname(m))]]},
                 {"verb": "mutate", "kw": [["ru3", i]]}]
    for st in steps:
        st = dict(st, **{"in": h, "out": g.new_handle()})
        if not g.try_step(st):
            g.nh -= 1
            break
        h = st["out"]
    g.features.add("shared_expr")
    return h


def gen_rowverbs(seed):
    g = ProgGen(seed)
    cols = ["k", "g", "x", "y", "f", "b", "s"] + (["d"] if g.rng.random() < 0.4 else [])
    h0 = g.add_table("t", cols=cols)
    h = g.chain(h0, g.rng.randint(1, 8), ROWVERB_WEIGHTS, depth=g.rng.choice([1, 2, 2, 3]))
    if g.rng.random() < 0.25 and not g.rr.env[h].group:
        h = reuse_block(g, h)
        h = g.chain(h, g.rng.randint(0, 2), ROWVERB_WEIGHTS, depth=1)
    probes = [s["out"] for s in g.steps] or [h0]
    return g.finish(probes)


def gen_general(seed, max_verbs=10, joins=True):
    g = ProgGen(seed)
    rng = g.rng
    cols = ["k", "g", "x", "y", "f", "b", "s"] + (["d"] if rng.random() < 0.3 else [])
    h0 = g.add_table("t", cols=cols)
    n = rng.randint(1, max_verbs)
    h = g.chain(h0, rng.randint(0, n), ALL_WEIGHTS, depth=rng.choice([1, 2, 2, 3]))
    if joins and rng.random() < 0.45:
        kind, nr = g.tg.shape()
        if kind == "tall" and g.rr.env[h].n > 40:
            kind, nr = "small_dups", 7
        h1 = g.add_table("u", cols=rng.choice([["k", "g", "x", "s"], ["k", "g", "f", "s", "b"], ["k", "x", "y"]]), shape=kind, nrows=nr)
        hr = g.chain(h1, rng.randint(0, 2), {"mutate": 2, "filter": 2, "select": 1, "rename": 1, "arrange": 0.5}, depth=1)
        if g.rr.env[h].group:
            st = g.step_ungroup(h)
            if g.try_step(st):
                h = st["out"]
        if rng.random() < 0.75:
            st = g.step_join(h, hr)
            if st is not None and g.rr.env[h].n * g.rr.env[hr].n <= 40000 and g.try_step(st):
                h = st["out"]
                g.features.add("join:" + st["how"])
        else:
            # union needs identical visible names: re-select on both sides
            ln = g.rr.env[h].names()
            rn = g.rr.env[hr].names()
            common = [x for x in ln if x in rn and g.rr.env[h].cols[g.rr.env[h].name_to_id()[x]].fam == g.rr.env[hr].cols[g.rr.env[hr].name_to_id()[x]].fam]
            if common:
                a = {"in": h, "out": g.new_handle(), "verb": "select", "cols": [cname(x) for x in common]}
                if g.try_step(a):
                    h = a["out"]
                    cr = list(common)
                    rng.shuffle(cr)
                    b = {"in": hr, "out": g.new_handle(), "verb": "select", "cols": [cname(x) for x in cr]}
                    if g.try_step(b):
                        st = g.step_union(h, b["out"])
                        if g.try_step(st):
                            h = st["out"]
                            g.features.add("union")
        h = g.chain(h, rng.randint(0, 3), ALL_WEIGHTS, depth=2)
    if rng.random() < 0.12 and not g.rr.env[h].group:
        h = reuse_block(g, h)
    probes = [s["out"] for s in g.steps if s["verb"] not in ("group_by",)][-4:] or [h0]
    if h not in probes:
        probes.append(h)
    return g.finish(probes)


# ---------------------------------------------------------------------------------------------
# property-centred families
# ---------------------------------------------------------------------------------------------


def gen_summarize(seed):
    """C04: [prefix] >> group_by(keys) >> summarize(aggs) >> [suffix]."""
    g = ProgGen(seed)
    rng = g.rng
    h = g.add_table("t", cols=["k", "g", "x", "y", "f", "b", "s"] + (["d"] if rng.random() < 0.3 else []))
    h = g.chain(h, rng.randint(0, 2), {"mutate": 2, "filter": 2, "arrange": 1, "rename": 0.5, "select": 0.5}, depth=2)
    # computed key
    if rng.random() < 0.35:
        sc = g.scope(h)
        fam = rng.choice(["int", "bool", "str"])
        e = g.eg.nonconst(fam, sc, 2)
        st = {"in": h, "out": g.new_handle(), "verb": "mutate", "kw": [["ck", e]]}
        if g.try_step(st):
            h = st["out"]
    if rng.random() < 0.12:
        # grouped only by constant columns: one group if there are rows, none if there are not
        st = {"in": h, "out": g.new_handle(), "verb": "mutate", "kw": [["cg", lit(rng.choice([7, "c", True]))]] + ([["cg2", lit(1)]] if rng.random() < 0.3 else [])}
        if g.try_step(st):
            h = st["out"]
            ints = [n for n, i in g.rr.env[h].vis if g.rr.env[h].cols[i].fam == "int" and g.rr.env[h].cols[i].name0 == "k"]
            if rng.random() < 0.5 and ints:
                fl = {"in": h, "out": g.new_handle(), "verb": "filter", "preds": [fn("lt", cname(ints[0]), lit(rng.choice([0, -5, 2])))]}
                if g.try_step(fl):
                    h = fl["out"]
            gb = {"in": h, "out": g.new_handle(), "verb": "group_by", "cols": [cname(n) for n, _ in st["kw"]]}
            if g.try_step(gb):
                sm = g.step_summarize(gb["out"]) if rng.random() < 0.8 else {"in": gb["out"], "out": g.new_handle(), "verb": "summarize", "kw": []}
                if sm is not None and g.try_step(sm):
                    g.features.add("constant_group_key")
                    mid = sm["out"]
                    h = g.chain(mid, rng.randint(0, 1), {"filter": 2, "mutate": 2, "select": 1}, depth=1)
                    return g.finish([mid] + ([h] if h != mid else []))
    nkeys = rng.choice([0, 1, 1, 2, 3])
    t = g.rr.env[h]
    vis = [(n, i) for n, i in t.vis if t.cols[i].fam in ("int", "bool", "str") and t.cols[i].name0 != "k"]
    if nkeys and vis:
        ks = rng.sample(vis, min(nkeys, len(vis)))
        first = {"in": h, "out": g.new_handle(), "verb": "group_by", "cols": [cname(n) if rng.random() < 0.4 else g._ref_for(h, i, n) for n, i in ks[:1]]}
        if g.try_step(first):
            h = first["out"]
            if len(ks) > 1:
                second = {"in": h, "out": g.new_handle(), "verb": "group_by", "cols": [g._ref_for(h, i, n) for n, i in ks[1:]], "add": True}
                if g.try_step(second):
                    h = second["out"]
            # a second group_by without add= replaces the grouping - also when the new keys overlap the old ones
            if rng.random() < 0.3:
                pool = vis if rng.random() < 0.5 else ks
                ks2 = rng.sample(pool, rng.randint(1, min(2, len(pool))))
                if rng.random() < 0.6 and ks[0] not in ks2:
                    ks2 = [ks[0]] + ks2[:1]
                again = {"in": h, "out": g.new_handle(), "verb": "group_by", "cols": [cname(n) if rng.random() < 0.4 else g._ref_for(h, i, n) for n, i in ks2]}
                if g.try_step(again):
                    h = again["out"]
                    g.features.add("regroup_overlapping")
    st = g.step_summarize(h)
    if g.try_step(st):
        h = st["out"]
    mid = h
    h = g.chain(h, rng.randint(0, 2), {"filter": 3, "mutate": 2, "arrange": 1.5, "slice_head": 0.7, "select": 1, "rename": 0.5}, depth=1)
    probes = [mid] + ([h] if h != mid else [])
    return g.finish(probes)


def _ref_for(self, h, cid, name):
    """A table reference (through some handle) to column id `cid`, else C.<name>."""
    cands = [col(hh, n) for hh, lst in self.refs.items() for n, i in lst if i == cid]
    return self.rng.choice(cands) if cands else cname(name)


ProgGen._ref_for = _ref_for


def gen_order(seed):
    """C05: arrange chains with markers, row-preserving verbs, slice_head, window functions."""
    g = ProgGen(seed)
    rng = g.rng
    r0 = rng.random()
    if r0 < 0.22:
        return _order_sandwich(g)
    if r0 < 0.32:
        return _hidden_window_reuse(g)
    if r0 < 0.42:
        return _renamed_sort_key(g)
    h = g.add_table("t", cols=["k", "g", "x", "y", "f", "b", "s"])
    w = {"arrange": 4, "mutate_win": 3, "mutate": 1.5, "filter": 1.5, "slice_head": 1.5, "select": 0.8, "rename": 0.8, "alias": 0.4,
         "group_by": 0.7, "ungroup": 0.7, "mutate_agg": 0.7}
    h = g.chain(h, rng.randint(2, 7), w, depth=1, p_total=rng.choice([0.9, 0.9, 0.5]))
    probes = [s["out"] for s in g.steps if s["verb"] not in ("group_by", "ungroup")][-5:] or [h]
    return g.finish(probes)


def _hidden_window_reuse(g):
    """A window column is hidden (deselected or overwritten), rows are filtered away, and the hidden column is used
    again through its original reference: its values must be those computed over the rows before the filter.
    (On SQL the filter needs a subquery: alias(keep_col_refs=True) before it makes the pipeline acceptable.)"""
    rng = g.rng
    h = g.add_table("t", cols=["k", "g", "x", "y", "f", "b", "s"])
    h0 = h
    sc = g.scope(h)
    pb = [col(h0, "g")] if rng.random() < 0.5 else None
    for _ in range(6):
        e, _fam = g.eg.window(sc, 1, total_key=g.total_key(h), pb=pb, need_arrange=True)
        st = {"in": h, "out": g.new_handle(), "verb": "mutate", "kw": [["w", e]]}
        if g.try_step(st):
            h = st["out"]
            break
    else:
        return g.finish([h])
    hw = h
    g.features.add("hidden_window_reuse")
    if rng.random() < 0.5:
        keep = [n for n in g.rr.env[h].names() if n != "w"]
        st = {"in": h, "out": g.new_handle(), "verb": "select", "cols": [cname(n) for n in keep]}
    else:
        st = {"in": h, "out": g.new_handle(), "verb": "mutate", "kw": [["w", fn("add", col(h0, "k"), lit(1))]]}
    if g.try_step(st):
        h = st["out"]
    if rng.random() < 0.75:
        st = {"in": h, "out": g.new_handle(), "verb": "alias", "keep": True}
        if g.try_step(st):
            h = st["out"]
    # a filter that really removes rows
    st = {"in": h, "out": g.new_handle(), "verb": "filter", "preds": [fn(rng.choice(["gt", "le"]), col(h0, "k"), lit(rng.choice([1, 2, 3, 5])))]}
    if g.try_step(st):
        h = st["out"]
    st = {"in": h, "out": g.new_handle(), "verb": "mutate", "kw": [["again", col(hw, "w")], ["plus", fn("add", col(hw, "w"), lit(0)) if g.rr.env[hw].cols[g.rr.env[hw].name_to_id()["w"]].fam in ("int", "float") else col(hw, "w")]]}
    if g.try_step(st):
        h = st["out"]
    probes = [h]
    if rng.random() < 0.5:
        st = g.step_arrange(h, 0.9)
        if st is not None and g.try_step(st):
            h = st["out"]
            probes.append(h)
    return g.finish(probes)


def _renamed_sort_key(g):
    """arrange by a column, then give its NAME to another column (overwriting mutate / rename swap) and arrange by
    that name: two different columns carry one name in the ORDER BY history - the older one must keep breaking ties
    (stable arrange), for slice_head and for window functions that follow the verb order."""
    rng = g.rng
    h = g.add_table("t", cols=["k", "g", "x", "y", "f", "b", "s"], shape=rng.choice([None, "small_dups", "small_dups"]))
    low = ["g", "b", "s"]
    n1 = rng.choice(low)
    n2 = rng.choice([c for c in low if c != n1])
    first = [{"e": col(h, n1), "desc": rng.random() < 0.4, "nl": rng.choice([None, True, False])}]
    if rng.random() < 0.5:
        first.append({"e": col(h, rng.choice(["x", "y"])), "desc": rng.random() < 0.5, "nl": None})
    first.append({"e": col(h, "k"), "desc": rng.random() < 0.3, "nl": None})
    steps = [{"verb": "arrange", "by": first}]
    if rng.random() < 0.6:
        steps.append({"verb": "mutate", "kw": [[n1, rng.choice([col(h, n2), fn("coalesce", col(h, n2), col(h, n2))])]]})
    else:
        steps.append({"verb": "rename", "map": [[n1, n2], [n2, n1]]})
    steps.append({"verb": "arrange", "by": [{"e": cname(n1), "desc": rng.random() < 0.4, "nl": rng.choice([None, True, False])}]})
    tail = rng.choice(["slice", "window", "window_slice", "none"])
    if tail in ("window", "window_slice"):
        steps.append({"verb": "mutate", "kw": [["rn", fn("row_number")], ["sh", fn("shift", cname("k"), lit(1))]]})
    if tail in ("slice", "window_slice"):
        steps.append({"verb": "slice_head", "n": rng.choice([1, 2, 3, 5]), "offset": rng.choice([0, 0, 1, 2])})
    probes = []
    for st in steps:
        st = dict(st, **{"in": h, "out": g.new_handle()})
        if not g.try_step(st):
            g.nh -= 1
            break
        h = st["out"]
        if st["verb"] != "mutate" or tail != "none":
            probes.append(h)
    g.features.add("renamed_sort_key")
    return g.finish(probes[-3:] or [h])


def _order_sandwich(g):
    """An ordered window function between a verb whose output order the engine does not keep (join, summarize,
    union) and a verb that does not observe the order of its input (arrange, summarize, join): the values
    must stay with their rows although no engine is obliged to keep the order around them."""
    rng = g.rng
    h = g.add_table("t", cols=["k", "g", "x", "y", "f", "b", "s"])
    src = rng.choice(["join", "join", "summarize", "union"])
    if src == "join":
        kind, nr = g.tg.shape()
        if kind == "tall":
            kind, nr = "small_dups", 7
        hr = g.add_table("u", cols=["k", "g", "x", "s"], shape=kind, nrows=nr)
        for _ in range(4):
            st = g.step_join(h, hr, how=rng.choice(["left", "inner", "full", "left"]))
            if st is not None and g.rr.env[h].n * g.rr.env[hr].n <= 20000 and g.try_step(st):
                h = st["out"]
                break
    elif src == "summarize":
        st = g.step_group_by(h)
        if st is not None and g.try_step(st):
            h = st["out"]
            st = g.step_summarize(h)
            if st is not None and g.try_step(st):
                h = st["out"]
    else:
        kind, nr = g.tg.shape()
        if kind == "tall":
            kind, nr = "small_dups", 7
        hr = g.add_table("t2", cols=["k", "g", "x", "y", "f", "b", "s"], shape=kind, nrows=nr)
        st = g.step_union(h, hr)
        if g.try_step(st):
            h = st["out"]
    g.features.add("order_sandwich:" + src)
    probes = []
    for _ in range(rng.randint(1, 2)):
        for _try in range(5):
            sc = g.scope(h)
            e, _fam = g.eg.window(sc, 1, total_key=g.total_key(h), pb=None, need_arrange=True)
            st = {"in": h, "out": g.new_handle(), "verb": "mutate", "kw": [[g.fresh_name(g.rr.env[h], 0.1), e]]}
            if g.try_step(st):
                h = st["out"]
                g.features.add("window")
                break
    probes.append(h)
    sink = rng.choice(["arrange", "summarize", "join", "filter_arrange"])
    if sink in ("arrange", "filter_arrange"):
        if sink == "filter_arrange":
            st = g.step_filter(h, 1)
            if st is not None and g.try_step(st):
                h = st["out"]
        st = g.step_arrange(h, 0.9)
        if st is not None and g.try_step(st):
            h = st["out"]
    elif sink == "summarize":
        st = g.step_group_by(h)
        if st is not None and g.try_step(st):
            h = st["out"]
            st = g.step_summarize(h)
            if st is not None and g.try_step(st):
                h = st["out"]
    else:
        hr2 = g.add_table("v", cols=["k", "y", "s"], shape="small_dups", nrows=5)
        for _ in range(4):
            st = g.step_join(h, hr2)
            if st is not None and g.rr.env[h].n * g.rr.env[hr2].n <= 20000 and g.try_step(st):
                h = st["out"]
                break
    probes.append(h)
    probes = [p for p in dict.fromkeys(probes) if not g.rr.env[p].group] or [h]
    return g.finish(probes)


NAME_ALPHABET = ["a", "b", "a_u", "b_u", "a_u_1", "a_right", "k"]


def _collision_table(g, handle_name, names, nrows):
    rng = g.rng
    h = g.new_handle()
    rows = []
    for r in range(nrows):
        row = []
        for n in names:
            if n == "k":
                row.append(r + 1)
            else:
                row.append(None if rng.random() < 0.2 else rng.choice([1, 2, 2, 3]))
        rows.append(row)
    ts = {"handle": h, "name": handle_name, "schema": [[n, "Int64"] for n in names], "rows": rows, "shape": "collision"}
    g.tables.append(ts)
    from .drive import table_rows

    g.rr.env[h] = ref.source_table(handle_name, [(n, "int") for n in names], table_rows(ts), "pol")
    g.refs[h] = list(g.rr.env[h].vis)
    return h


def gen_join(seed):
    """C06: all join kinds / predicates / name-collision configurations + reachability probes."""
    g = ProgGen(seed)
    rng = g.rng
    if rng.random() < 0.45:
        # name-collision configurations from the small alphabet
        ln = rng.sample(NAME_ALPHABET, rng.randint(2, 5))
        rn = rng.sample(["a", "b", "a_u", "k"], rng.randint(1, 3))
        hl = _collision_table(g, "t", ln, rng.randint(0, 6))
        hr = _collision_table(g, rng.choice(["u", "u", "right"]), rn, rng.randint(0, 6))
        # hide some columns to produce visible/hidden and hidden/hidden collisions
        for side in ("l", "r"):
            hh = hl if side == "l" else hr
            if rng.random() < 0.4:
                st = g.step_select(hh)
                if st is not None and g.try_step(st):
                    if side == "l":
                        hl = st["out"]
                    else:
                        hr = st["out"]
    else:
        hl = g.add_table("t", cols=["k", "g", "x", "s", "b"])
        kind, nr = g.tg.shape()
        if kind == "tall":
            kind, nr = "small_dups", 9
        hr = g.add_table("u", cols=rng.choice([["k", "g", "x", "s"], ["k", "g", "f", "s"], ["k", "y", "s"]]), shape=kind, nrows=nr)
        hl = g.chain(hl, rng.randint(0, 2), {"mutate": 2, "filter": 2, "select": 1, "rename": 1, "alias": 0.4}, depth=1)
        hr = g.chain(hr, rng.randint(0, 2), {"mutate": 2, "filter": 2, "select": 1, "rename": 1, "alias": 0.4}, depth=1)
        if rng.random() < 0.35:
            # a computed column that is not null for null input (or a constant) on a side that an outer join pads with
            # nulls: unmatched rows must show null there (SQL needs a subquery: mostly an alias() follows)
            side = rng.choice(["r", "r", "l"])
            hh = hr if side == "r" else hl
            t0 = g.rr.env[hh]
            by_fam = {}
            for n, i in t0.vis:
                by_fam.setdefault(t0.cols[i].fam, []).append(cname(n))
            forms = [["cst", lit(rng.choice([5, "c", True]))]]
            if by_fam.get("int"):
                c0 = rng.choice(by_fam["int"])
                forms += [["nn", fn("fill_null", c0, lit(0))], ["isn", fn("is_null", c0)], ["co", fn("coalesce", c0, lit(-1))], ["hm", fn("hmax", c0, lit(2))],
                          ["cs", {"k": "case", "cases": [[fn("gt", c0, lit(1)), lit(1)]], "default": lit(0)}], ["strict", fn("add", c0, lit(1))]]
            if by_fam.get("str"):
                s0 = rng.choice(by_fam["str"])
                forms += [["sn", fn("fill_null", s0, lit("-"))], ["snn", fn("is_not_null", s0)]]
            if by_fam.get("bool"):
                b0 = rng.choice(by_fam["bool"])
                forms += [["bo", fn("or", b0, lit(True))], ["ba", fn("and", b0, lit(False))]]
            kw = [[f"{nm}_{side}", e] for nm, e in rng.sample(forms, min(len(forms), rng.randint(1, 3)))]
            stm = {"in": hh, "out": g.new_handle(), "verb": "mutate", "kw": kw}
            if g.try_step(stm):
                hh = stm["out"]
                g.features.add("not_null_preserving_column")
                if rng.random() < 0.7:
                    al = {"in": hh, "out": g.new_handle(), "verb": "alias", "keep": rng.random() < 0.5}
                    if g.try_step(al):
                        hh = al["out"]
                if rng.random() < 0.4:
                    # ... and the computed column is hidden again before the join (dropped, or overwritten by a plain
                    # column): it stays reachable through the handle that made it and must still be padded with nulls
                    names = [n for n, _e in kw]
                    others = [n for n, _i in g.rr.env[hh].vis if n not in names]
                    if others and rng.random() < 0.35:
                        hs = {"in": hh, "out": g.new_handle(), "verb": "mutate", "kw": [[n, cname(rng.choice(others))] for n in names]}
                    else:
                        hs = {"in": hh, "out": g.new_handle(), "verb": "drop", "cols": [col(hh, n) for n in names]}
                    if others and g.try_step(hs):
                        hh = hs["out"]
                        g.features.add("hidden_not_null_preserving_column")
                if side == "r":
                    hr = hh
                else:
                    hl = hh
    if g.rr.env[hl].n * g.rr.env[hr].n > 40000:
        return g.finish([hl])
    st = None
    for _ in range(4):
        st = g.step_join(hl, hr)
        if st is not None and g.try_step(st):
            break
        st = None
    if st is None:
        return g.finish([hl])
    hj = st["out"]
    g.features.add("join:" + st["how"])
    probes = [hj]
    # reachability: every column of either input (visible or hidden) through its original reference
    kw = []
    tj = g.rr.env[hj]
    seen = set()
    for hh, lst in list(g.refs.items()):
        if hh == hj:
            continue
        for n, i in lst:
            if i in tj.cols and i not in seen and rng.random() < 0.7:
                seen.add(i)
                kw.append([f"p{len(kw)}", col(hh, n)])
    if kw:
        pst = {"in": hj, "out": g.new_handle(), "verb": "mutate", "kw": kw[:8]}
        if g.try_step(pst):
            probes.append(pst["out"])
    # sometimes a self join / second join on top
    if rng.random() < 0.3:
        al = {"in": hr, "out": g.new_handle(), "verb": "alias", "keep": False, "name": "w2"}
        if g.try_step(al):
            st2 = g.step_join(hj, al["out"])
            if st2 is not None and g.rr.env[hj].n * g.rr.env[al["out"]].n <= 40000 and g.try_step(st2):
                probes.append(st2["out"])
    h = g.chain(probes[-1], rng.randint(0, 2), {"mutate": 2, "filter": 2, "select": 1, "arrange": 1}, depth=1)
    if h not in probes:
        probes.append(h)
    return g.finish(probes)


def gen_union(seed):
    """C07: unions with permuted column order, hidden columns, duplicates, empties, chains."""
    g = ProgGen(seed)
    rng = g.rng
    cols = rng.choice([["k", "g", "x"], ["g", "x", "s"], ["g", "b"], ["x", "s", "b", "g"]])
    shapes = [g.tg.shape() for _ in range(3)]
    hs = []
    for i, (kind, nr) in enumerate(shapes[: rng.choice([2, 2, 3])]):
        if kind == "tall":
            kind, nr = "small_dups", rng.randint(2, 9)
        extra = rng.sample(["y", "f", "h"], rng.randint(0, 2))
        cs = list(cols) + extra
        rng.shuffle(cs)
        h = g.add_table(["t", "u", "v"][i], cols=cs, shape=kind, nrows=nr)
        # verbs before the union; hidden columns arise from the final select
        h = g.chain(h, rng.randint(0, 2), {"mutate": 2, "filter": 2, "rename": 0.3}, depth=1)
        t = g.rr.env[h]
        want = [c for c in cols if c in t.names()]
        if len(want) != len(cols):
            return g.finish([h])
        order = list(cols)
        if i > 0:
            rng.shuffle(order)
        st = {"in": h, "out": g.new_handle(), "verb": "select", "cols": [cname(c) for c in order]}
        if not g.try_step(st):
            return g.finish([h])
        hs.append(st["out"])
    if len(hs) >= 2 and len(cols) >= 2 and rng.random() < 0.3:
        # right operand: select away column c1, then rename another column onto its name -> a hidden and a visible
        # column share the name; the visible columns come in a different order than on the left
        base = hs[-1]
        t = g.rr.env[base]
        c1, c2 = cols[0], cols[1]
        if t.cols[t.name_to_id()[c1]].fam == t.cols[t.name_to_id()[c2]].fam:
            others = [c for c in cols if c not in (c1, c2)]
            a1 = {"in": base, "out": g.new_handle(), "verb": "select", "cols": [cname(c) for c in [c2] + others]}
            if g.try_step(a1):
                tmpn = c2 + "_t"
                a2 = {"in": a1["out"], "out": g.new_handle(), "verb": "rename", "map": [[c2, c1]]}
                a3 = {"in": a1["out"], "out": g.new_handle(), "verb": "mutate", "kw": [[tmpn, cname(c2)]]}
                if g.try_step(a2):
                    # the table now lacks c2; re-create it from the (renamed) column so that the names match again
                    a4 = {"in": a2["out"], "out": g.new_handle(), "verb": "mutate", "kw": [[c2, cname(c1)]]}
                    if g.try_step(a4):
                        order = [c2] + others + [c1]
                        a5 = {"in": a4["out"], "out": g.new_handle(), "verb": "select", "cols": [cname(c) for c in order]}
                        if g.try_step(a5):
                            hs[-1] = a5["out"]
                            g.features.add("union_hidden_same_name")
                _ = a3
    h = hs[0]
    probes = []
    for r in hs[1:]:
        st = g.step_union(h, r)
        if not g.try_step(st):
            break
        h = st["out"]
        probes.append(h)
        g.features.add("union")
    h2 = g.chain(h, rng.randint(0, 2), {"filter": 2, "mutate": 2, "mutate_agg": 1, "arrange": 1, "group_by": 0.5, "summarize": 1, "select": 0.7}, depth=1)
    if h2 not in probes:
        probes.append(h2)
    return g.finish(probes or [h])


# ---------------------------------------------------------------------------------------------
# histories for C09 / C16
# ---------------------------------------------------------------------------------------------

REF_WEIGHTS = {"rename": 4, "select": 3, "mutate": 4, "arrange": 1.5, "filter": 1.5, "alias": 0.5, "group_by": 0.4, "ungroup": 0.4, "summarize": 0.4}


def _probe_refs(g, h, limit=10):
    """mutate(p_i=<old reference>, q_j=C.<name>) for references through every earlier handle."""
    t = g.rr.env[h]
    kw = []
    seen = set()
    items = [(hh, n, i) for hh, lst in g.refs.items() for n, i in lst if i in t.cols]
    g.rng.shuffle(items)
    for hh, n, i in items:
        if (hh, i) in seen or len(kw) >= limit:
            continue
        seen.add((hh, i))
        kw.append([f"p{len(kw)}", col(hh, n)])
    for n, _i in g.rng.sample(t.vis, min(3, len(t.vis))):
        kw.append([f"q{len(kw)}", cname(n)])
    if not kw:
        return None
    return {"in": h, "out": g.new_handle(), "verb": "mutate", "kw": kw}


def _dead_refs(g, h, limit=3):
    t = g.rr.env[h]
    dead = [(hh, n) for hh, lst in g.refs.items() for n, i in lst if i not in t.cols]
    g.rng.shuffle(dead)
    return dead[:limit]


def gen_refs(seed):
    """C09: references taken at any earlier point, used after renames / swaps / hiding / overwrites /
    joins / alias(keep_col_refs=True) / collect()."""
    g = ProgGen(seed)
    rng = g.rng
    h0 = g.add_table("t", cols=["k", "g", "x", "y", "s", "b"])
    h = g.chain(h0, rng.randint(2, 7), REF_WEIGHTS, depth=1)
    pol_only = False
    r = rng.random()
    if r < 0.35 and not g.rr.env[h].group:
        kind, nr = g.tg.shape()
        if kind == "tall":
            kind, nr = "small_dups", 6
        h1 = g.add_table("u", cols=["k", "g", "x", "s"], shape=kind, nrows=nr)
        h1 = g.chain(h1, rng.randint(0, 2), {"rename": 2, "mutate": 1, "select": 1}, depth=1)
        st = g.step_join(h, h1)
        if st is not None and g.rr.env[h].n * g.rr.env[h1].n <= 20000 and g.try_step(st):
            h = st["out"]
    elif r < 0.5:
        st = {"in": h, "out": g.new_handle(), "verb": "alias", "keep": True}
        if g.try_step(st):
            h = st["out"]
    elif r < 0.62:
        st = {"in": h, "out": g.new_handle(), "verb": "collect", "keep": True}
        if g.try_step(st):
            h = st["out"]
            pol_only = True
    h = g.chain(h, rng.randint(0, 3), REF_WEIGHTS, depth=1)
    if rng.random() < 0.2 and not g.rr.env[h].group and not pol_only:
        # a renamed column (explicitly, or by a join suffix) as grouping key of a summarize: the result carries the
        # current name, `derived[t.x].name` reports it and C.<current name> finds it
        t0 = g.rr.env[h]
        cands = [(n, i) for n, i in t0.vis if t0.cols[i].fam in ("int", "bool", "str") and t0.cols[i].name0 != n]
        if not cands:
            pick = [(n, i) for n, i in t0.vis if t0.cols[i].fam in ("int", "bool", "str") and t0.cols[i].name0 != "k"]
            if pick:
                n0, i0 = rng.choice(pick)
                rn = {"in": h, "out": g.new_handle(), "verb": "rename", "map": [[n0, n0 + "_rn"]]}
                if g.try_step(rn):
                    h = rn["out"]
                    cands = [(n0 + "_rn", i0)]
        if cands:
            gn, gi = rng.choice(cands)
            gb = {"in": h, "out": g.new_handle(), "verb": "group_by", "cols": [g._ref_for(h, gi, gn) if rng.random() < 0.6 else cname(gn)]}
            if g.try_step(gb):
                sm = g.step_summarize(gb["out"])
                if sm is not None and g.try_step(sm):
                    h = sm["out"]
                    g.features.add("renamed_group_key_summarized")
    probes = []
    if not g.rr.env[h].group or True:
        st = _probe_refs(g, h)
        if st is not None and g.try_step(st):
            probes.append(st["out"])
    # uses of references that are not derivable any more must be rejected
    for hh, n in _dead_refs(g, h):
        v = rng.choice(["mutate", "filter", "arrange", "select"])
        if v == "mutate":
            st = {"in": h, "out": g.new_handle(), "verb": "mutate", "kw": [["dead", col(hh, n)]]}
        elif v == "filter":
            st = {"in": h, "out": g.new_handle(), "verb": "filter", "preds": [fn("is_null", col(hh, n))]}
        elif v == "arrange":
            st = {"in": h, "out": g.new_handle(), "verb": "arrange", "by": [{"e": col(hh, n), "desc": False, "nl": True}]}
        else:
            st = {"in": h, "out": g.new_handle(), "verb": "select", "cols": [col(hh, n)]}
        g.steps.append(st)  # deliberately not REF-accepted
        g.features.add("dead_ref")
    p = g.finish(probes or [h])
    if pol_only:
        p["meta"]["skip_backends"] = ["sqlite"]
    p["meta"]["name_probe"] = h
    return p


def gen_reroot(seed):
    """C16: prefix >> {alias(), alias(name), alias(keep), collect(), collect(keep=False), transfer} >> uses."""
    g = ProgGen(seed)
    rng = g.rng
    h0 = g.add_table("t", cols=["k", "g", "x", "y", "s", "b"])
    w = dict(REF_WEIGHTS)
    w.update({"group_by": 0.8, "arrange": 1.0, "alias": 0.2, "summarize": 0.2})
    h = g.chain(h0, rng.randint(0, 6), w, depth=1)
    if rng.random() < 0.18 and not g.rr.env[h].group:
        # grouped by a column that is hidden afterwards: the grouping must survive the re-rooting
        t0 = g.rr.env[h]
        cands = [(n, i) for n, i in t0.vis if t0.cols[i].fam in ("int", "bool", "str") and t0.cols[i].name0 != "k"]
        if cands and len(t0.vis) >= 3:
            gn, gi = rng.choice(cands)
            st = {"in": h, "out": g.new_handle(), "verb": "group_by", "cols": [g._ref_for(h, gi, gn)]}
            if g.try_step(st):
                h = st["out"]
                rest = [cname(n) for n, i in t0.vis if i != gi]
                st = {"in": h, "out": g.new_handle(), "verb": "select", "cols": rest} if rng.random() < 0.6 else {"in": h, "out": g.new_handle(), "verb": "drop", "cols": [cname(gn)]}
                if g.try_step(st):
                    h = st["out"]
                    g.features.add("hidden_grouping_column")
    before = h
    form = rng.choice(["alias", "alias_name", "alias_keep", "collect", "collect_nokeep", "transfer", "alias_twice"])
    pol_only = form.startswith("collect")
    if form in ("alias", "alias_name", "alias_keep", "alias_twice"):
        st = {"in": h, "out": g.new_handle(), "verb": "alias", "keep": form == "alias_keep"}
        if form == "alias_name":
            st["name"] = "renamed"
        if not g.try_step(st):
            return g.finish([h])
        h = st["out"]
        if form == "alias_twice":
            st = {"in": h, "out": g.new_handle(), "verb": "alias", "keep": rng.random() < 0.5}
            if g.try_step(st):
                h = st["out"]
    elif form.startswith("collect"):
        st = {"in": h, "out": g.new_handle(), "verb": "collect", "keep": form == "collect"}
        if not g.try_step(st):
            return g.finish([h])
        h = st["out"]
    else:
        # transfer_col_references(new, old): `new` is an independent copy of the same data (alias), `old` the origin
        if g.rr.env[h].group:
            st = g.step_ungroup(h)
            if g.try_step(st):
                h = before = st["out"]
        a = {"in": h, "out": g.new_handle(), "verb": "alias", "keep": False}
        if not g.try_step(a):
            return g.finish([h])
        mid = g.chain(a["out"], rng.randint(0, 1), {"filter": 1, "arrange": 1}, depth=1)
        if rng.random() < 0.6:
            # the new table lists its columns in another order / only some of them: references are transferred by NAME
            names = g.rr.env[mid].names()
            keep = rng.sample(names, rng.randint(max(1, len(names) - 1), len(names)))
            if "k" in names and "k" not in keep:
                keep.append("k")
            rng.shuffle(keep)
            sel = {"in": mid, "out": g.new_handle(), "verb": "select", "cols": [cname(n) for n in keep]}
            if g.try_step(sel):
                mid = sel["out"]
        st = {"in": mid, "out": g.new_handle(), "verb": "transfer", "ref": before}
        if not g.try_step(st):
            return g.finish([h])
        h = st["out"]
    after = h
    probes = [before, after]
    t = g.rr.env[after]
    # grouping survives: aggregates / window functions in mutate see the partitions, also for a hidden grouping column
    if t.group and rng.random() < 0.7:
        for _ in range(4):
            st = g.step_mutate(after, ("a", "w"), 1)
            if st is not None and g.try_step(st):
                un = g.step_ungroup(st["out"])
                if un is not None and g.try_step(un):
                    probes.append(un["out"])
                break
    # grouping survives: summarize right after
    if t.group and rng.random() < 0.7:
        st = g.step_summarize(after)
        if g.try_step(st):
            probes.append(st["out"])
    else:
        st = _probe_refs(g, after)
        if st is not None and g.try_step(st):
            probes.append(st["out"])
        for hh, n in _dead_refs(g, after, 2):
            g.steps.append({"in": after, "out": g.new_handle(), "verb": "mutate", "kw": [["dead", col(hh, n)]]})
            g.features.add("dead_ref")
        # self join of the origin with the re-rooted table (only a plain alias makes it independent)
        if form in ("alias", "alias_name", "alias_twice", "collect_nokeep") and not g.rr.env[before].group and not t.group and "k" in g.rr.env[before].names() and "k" in t.names():
            if g.rr.env[before].n * t.n <= 20000:
                j = {"in": before, "out": g.new_handle(), "verb": "join", "right": after, "how": rng.choice(["inner", "left"]),
                     "on": [fn("eq", col(before, "k"), col(after, "k"))]}
                if g.try_step(j):
                    probes.append(j["out"])
        elif form in ("alias_keep", "collect", "transfer") and not g.rr.env[before].group and not t.group and "k" in t.names():
            # not independent: a join with the origin must be refused
            g.steps.append({"in": before, "out": g.new_handle(), "verb": "join", "right": after, "how": "inner", "on_names": ["k"]})
    h2 = g.chain(after, rng.randint(0, 2), REF_WEIGHTS, depth=1)
    if h2 != after:
        probes.append(h2)
    p = g.finish(probes)
    p["meta"]["form"] = form
    p["meta"]["before_after"] = [before, after]
    if pol_only:
        p["meta"]["skip_backends"] = ["sqlite"]
    return p


# ---------------------------------------------------------------------------------------------
# C15: metamorphic pairs
# ---------------------------------------------------------------------------------------------

EQUIVS = ["mutate_split", "filter_split", "window_verbs_vs_kwargs", "drop_vs_select", "rename_inverse", "slice_chain", "inner_vs_cross_filter",
          "map_vs_case", "is_in_vs_or", "union_swap"]


def gen_equiv(seed, which=None):
    g = ProgGen(seed)
    rng = g.rng
    eq = which or rng.choice(EQUIVS)
    h0 = g.add_table("t", cols=["k", "g", "x", "y", "f", "b", "s"])
    h = g.chain(h0, rng.randint(0, 3), {"mutate": 2, "filter": 2, "rename": 1, "select": 0.7, "arrange": 1}, depth=1)
    if g.rr.env[h].group:
        st = g.step_ungroup(h)
        if g.try_step(st):
            h = st["out"]
    t = g.rr.env[h]
    sc = g.scope(h)
    A, B = [], []

    def nh():
        return g.new_handle()

    def add(branch, st):
        branch.append(st)
        return st["out"]

    ok = True
    if eq == "mutate_split":
        names = [n for n in ["y1", "y2", "y3"] if n not in t.names()][:2]
        e1 = g.eg.expr(rng.choice(["int", "float", "str", "bool"]), sc, 2)
        e2 = g.eg.expr(rng.choice(["int", "float", "str", "bool"]), sc, 2)
        a = add(A, {"in": h, "out": nh(), "verb": "mutate", "kw": [[names[0], e1], [names[1], e2]]})
        m = add(B, {"in": h, "out": nh(), "verb": "mutate", "kw": [[names[0], e1]]})
        b = add(B, {"in": m, "out": nh(), "verb": "mutate", "kw": [[names[1], e2]]})
    elif eq == "filter_split":
        p, q = g.eg.expr("bool", sc, 2), g.eg.expr("bool", sc, 2)
        a = add(A, {"in": h, "out": nh(), "verb": "filter", "preds": [p, q]})
        m = add(B, {"in": h, "out": nh(), "verb": "filter", "preds": [p]})
        b = add(B, {"in": m, "out": nh(), "verb": "filter", "preds": [q]})
    elif eq == "window_verbs_vs_kwargs":
        vis = g.scope(h, visible_only=True, c_prob=0)
        gcs = [e for e, f in vis if f in ("int", "bool", "str") and g.rr.env[e["t"]].cols[g._cid(e)].name0 != "k"]
        tk = g.total_key(h)
        if not gcs or tk is None:
            ok = False
        else:
            gc = rng.choice(gcs)
            order = g.eg.orders(sc, tk, p_total=1.0, allow_unmarked=False)
            if not any(o["e"] == tk for o in order):
                order.append({"e": tk, "desc": False, "nl": None})
            op = rng.choice(["shift", "row_number", "shift", "sum", "max", "count"])
            xs = [e for e, f in sc if f == "int"]
            if not xs:
                ok = False
            else:
                x = rng.choice(xs)
                mk = {
                    "shift": lambda **kw: fn("shift", x, lit(rng.choice([1, -1, 2])), lit(None), **kw),
                    "row_number": lambda **kw: fn("row_number", **kw),
                    "cum_sum": lambda **kw: fn("cum_sum", x, **kw),
                    "sum": lambda **kw: fn("sum", x, **({k: v for k, v in kw.items() if k != "arr"})),
                    "max": lambda **kw: fn("max", x, **({k: v for k, v in kw.items() if k != "arr"})),
                    "count": lambda **kw: fn("count_star", **({k: v for k, v in kw.items() if k != "arr"})),
                }[op]
                # random.Random state must be the same for both sides: build once, copy
                import copy as _c

                eB = mk(pb=[gc], arr=order)
                eA = _c.deepcopy(eB)
                eA.pop("pb", None)
                eA.pop("arr", None)
                a1 = add(A, {"in": h, "out": nh(), "verb": "group_by", "cols": [gc]})
                a2 = add(A, {"in": a1, "out": nh(), "verb": "arrange", "by": order})
                a3 = add(A, {"in": a2, "out": nh(), "verb": "mutate", "kw": [["w", eA]]})
                a4 = add(A, {"in": a3, "out": nh(), "verb": "ungroup"})
                a = add(A, {"in": a4, "out": nh(), "verb": "arrange", "by": [{"e": tk, "desc": False, "nl": None}]})
                b1 = add(B, {"in": h, "out": nh(), "verb": "mutate", "kw": [["w", eB]]})
                b = add(B, {"in": b1, "out": nh(), "verb": "arrange", "by": [{"e": tk, "desc": False, "nl": None}]})
    elif eq == "drop_vs_select":
        if len(t.vis) < 2:
            ok = False
        else:
            k = rng.randint(1, len(t.vis) - 1)
            dropped = rng.sample(t.vis, k)
            keep = [(n, i) for n, i in t.vis if (n, i) not in dropped]
            a = add(A, {"in": h, "out": nh(), "verb": "drop", "cols": [g._ref_for(h, i, n) if rng.random() < 0.6 else cname(n) for n, i in dropped]})
            b = add(B, {"in": h, "out": nh(), "verb": "select", "cols": [g._ref_for(h, i, n) if rng.random() < 0.6 else cname(n) for n, i in keep]})
    elif eq == "rename_inverse":
        names = t.names()
        k = rng.randint(1, min(3, len(names)))
        ch = rng.sample(names, k)
        mp = [[n, n + "_tmp"] for n in ch]
        if k >= 2 and rng.random() < 0.4:
            mp = [[ch[0], ch[1]], [ch[1], ch[0]]]
        inv = [[b_, a_] for a_, b_ in mp]
        m = add(A, {"in": h, "out": nh(), "verb": "rename", "map": mp})
        a = add(A, {"in": m, "out": nh(), "verb": "rename", "map": inv})
        b = add(B, {"in": h, "out": nh(), "verb": "filter", "preds": []})
    elif eq == "slice_chain":
        tk = g.total_key(h)
        if tk is None:
            ok = False
        else:
            base = add(A, {"in": h, "out": nh(), "verb": "arrange", "by": [{"e": tk, "desc": rng.random() < 0.3, "nl": None}]})
            B.append(A[0])
            n1, o1 = rng.choice([1, 2, 3, 5, 8]), rng.choice([0, 0, 1, 2, 4])
            n2, o2 = rng.choice([0, 1, 2, 5, 9]), rng.choice([0, 1, 2, 4, 6])
            m = add(A, {"in": base, "out": nh(), "verb": "slice_head", "n": n1, "offset": o1})
            a = add(A, {"in": m, "out": nh(), "verb": "slice_head", "n": n2, "offset": o2})
            b = add(B, {"in": base, "out": nh(), "verb": "slice_head", "n": min(n2, max(n1 - o2, 0)), "offset": o1 + o2})
    elif eq == "inner_vs_cross_filter":
        h1 = g.add_table("u", cols=["k", "g", "x", "s"], shape="small_dups", nrows=rng.randint(0, 7))
        if t.n * g.rr.env[h1].n > 20000:
            ok = False
        else:
            st = None
            for _ in range(4):
                st = g.step_join(h, h1, how="inner")
                if st is not None and "on" in st and st["on"]:
                    break
                st = None
            if st is None:
                ok = False
            else:
                st.pop("cross", None)
                st["suffix"] = "_u"
                a = add(A, dict(st, out=nh()))
                c = add(B, {"in": h, "out": nh(), "verb": "join", "right": h1, "how": "inner", "on": [], "cross": True, "suffix": "_u"})
                b = add(B, {"in": c, "out": nh(), "verb": "filter", "preds": st["on"]})
    elif eq == "map_vs_case":
        fam = rng.choice(["int", "str"])
        xs = [e for e, f in sc if f == fam]
        if not xs:
            ok = False
        else:
            x = rng.choice(xs)
            pool = INT_POOL if fam == "int" else STR_POOL
            keys = rng.sample(pool, 4)
            vfam = rng.choice(["int", "str"])
            vals = [lit(v) for v in rng.sample(INT_POOL if vfam == "int" else STR_POOL, 3)]
            m = [[lit(keys[0]), vals[0]], [[lit(keys[1]), lit(keys[2])], vals[1]]]
            default = vals[2] if (rng.random() < 0.7 or vfam != fam) else None
            em = {"k": "map", "e": x, "m": m, "default": default}
            ec = {"k": "case", "cases": [[fn("is_in", x, lit(keys[0])), vals[0]], [fn("is_in", x, lit(keys[1]), lit(keys[2])), vals[1]]],
                  "default": default if default is not None else x}
            a = add(A, {"in": h, "out": nh(), "verb": "mutate", "kw": [["m", em]]})
            b = add(B, {"in": h, "out": nh(), "verb": "mutate", "kw": [["m", ec]]})
    elif eq == "is_in_vs_or":
        fam = rng.choice(["int", "str", "float"])
        xs = [e for e, f in sc if f == fam]
        if not xs:
            ok = False
        else:
            x = rng.choice(xs)
            v1 = g.eg.leaf(fam, sc if rng.random() < 0.4 else [], True)
            v2 = g.eg.leaf(fam, [], True) if rng.random() < 0.8 else lit(None)
            a = add(A, {"in": h, "out": nh(), "verb": "mutate", "kw": [["m", fn("is_in", x, v1, v2)]]})
            b = add(B, {"in": h, "out": nh(), "verb": "mutate", "kw": [["m", fn("or", fn("eq", x, v1), fn("eq", x, v2))]]})
            if rng.random() < 0.5:
                a = add(A, {"in": a, "out": nh(), "verb": "filter", "preds": [cname("m")]})
                b = add(B, {"in": b, "out": nh(), "verb": "filter", "preds": [cname("m")]})
    elif eq == "union_swap":
        cols = ["g", "x", "s"]
        h1 = g.add_table("u", cols=["s", "x", "g", "y"], shape=rng.choice(["small_dups", "null_heavy", "empty"]), nrows=rng.choice([0, 3, 7]))
        if not all(c in t.names() for c in cols):
            ok = False
        else:
            l = {"in": h, "out": nh(), "verb": "select", "cols": [cname(c) for c in cols]}
            r = {"in": h1, "out": nh(), "verb": "select", "cols": [cname(c) for c in ["s", "g", "x"]]}
            A += [l, r]
            B += [l, r]
            d = rng.random() < 0.5
            a = add(A, {"in": l["out"], "out": nh(), "verb": "union", "right": r["out"], "distinct": d})
            b = add(B, {"in": r["out"], "out": nh(), "verb": "union", "right": l["out"], "distinct": d})
    if not ok:
        return gen_equiv(seed + 7919, which)
    seen = set()
    for st in A + B:
        if id(st) in seen:
            continue
        seen.add(id(st))
        if not g.try_step(st):
            return gen_equiv(seed + 7919, which)
    p = g.finish([a, b])
    p["meta"]["equivalence"] = eq
    p["meta"]["pair"] = [a, b]
    return p


# ---------------------------------------------------------------------------------------------
# C08: verb orders that may need a subquery on SQL
# ---------------------------------------------------------------------------------------------

SUBQ_ALPHABET = ["filter", "filter_win", "mutate", "mutate_win", "mutate_agg", "summarize", "slice_head", "arrange", "group_by", "join", "union", "select", "rename"]
SUBQ_ALPHABET_REFS = SUBQ_ALPHABET + ["use_hidden_win", "select", "filter"]


def _c_only(exprs):
    return exprs


def gen_subq(seed, order=None, alias_at=(), c_only=True):
    """A pipeline over the C08 alphabet (name-based references only when c_only), optionally with alias() inserted."""
    g = ProgGen(seed, cfg={"c_only": c_only})
    rng = g.rng
    h = g.add_table("t", cols=["k", "g", "x", "y", "f", "b", "s"])
    order = order or [rng.choice(SUBQ_ALPHABET) for _ in range(rng.randint(2, 6))]
    win_names = []
    applied = []
    for pos, v in enumerate(order):
        if pos in alias_at:
            st = {"in": h, "out": g.new_handle(), "verb": "alias", "keep": False}
            if g.try_step(st):
                h = st["out"]
                applied.append("alias")
        t = g.rr.env[h]
        st = None
        if v == "filter":
            st = g.step_filter(h, 1)
        elif v == "filter_win":
            live = [n for n in win_names if n in t.names() and t.cols[t.name_to_id()[n]].fam in ("int", "float")]
            if not live:
                continue
            st = {"in": h, "out": g.new_handle(), "verb": "filter", "preds": [fn("gt", cname(rng.choice(live)), lit(1))]}
        elif v == "use_hidden_win":
            # reference a (possibly hidden) window column through the handle that created it
            cands = [(hh, n) for hh, n in g.win_refs if g.rr.env[hh].name_to_id().get(n) in t.cols] if hasattr(g, "win_refs") else []
            if not cands:
                continue
            hh, n = rng.choice(cands)
            st = {"in": h, "out": g.new_handle(), "verb": "mutate", "kw": [[g.fresh_name(t, 0), col(hh, n)]]}
        elif v == "mutate":
            st = g.step_mutate(h, ("e",), 1)
        elif v == "mutate_win":
            st = g.step_mutate(h, ("w",), 1)
            if st is not None:
                win_names += [n for n, _ in st["kw"]]
                g.win_refs = getattr(g, "win_refs", []) + [(st["out"], n) for n, _ in st["kw"]]
        elif v == "mutate_agg":
            st = g.step_mutate(h, ("a",), 1)
            if st is not None:
                win_names += [n for n, _ in st["kw"]]
                g.win_refs = getattr(g, "win_refs", []) + [(st["out"], n) for n, _ in st["kw"]]
        elif v == "summarize":
            if not t.group and rng.random() < 0.6:
                gb = g.step_group_by(h)
                if gb is not None and g.try_step(gb):
                    h = gb["out"]
                    applied.append("group_by")
            st = g.step_summarize(h)
        elif v == "slice_head":
            if t.group:
                u = g.step_ungroup(h)
                if g.try_step(u):
                    h = u["out"]
            # make the slice well defined
            ar = g.step_arrange(h, p_total=1.0)
            if ar is not None and g.try_step(ar):
                h = ar["out"]
                applied.append("arrange")
            st = g.step_slice(h)
        elif v == "arrange":
            st = g.step_arrange(h, p_total=0.9)
        elif v == "group_by":
            st = g.step_group_by(h)
        elif v == "select":
            st = g.step_select(h)
        elif v == "rename":
            st = g.step_rename(h)
        elif v in ("join", "union"):
            if t.group:
                u = g.step_ungroup(h)
                if g.try_step(u):
                    h = u["out"]
            g2cfg = g.cfg
            h1 = g.add_table(f"u{len(g.tables)}", cols=["k", "g", "x", "s"], shape="small_dups", nrows=rng.randint(0, 8))
            prep = rng.choice([[], ["filter"], ["mutate"], ["slice_head"], ["summarize"], ["mutate_win"], ["arrange"]])
            for pv in prep:
                ps = None
                if pv == "filter":
                    ps = g.step_filter(h1, 1)
                elif pv == "mutate":
                    ps = g.step_mutate(h1, ("e",), 1)
                elif pv == "mutate_win":
                    ps = g.step_mutate(h1, ("w",), 1)
                elif pv == "arrange":
                    ps = g.step_arrange(h1, 1.0)
                elif pv == "slice_head":
                    ar = g.step_arrange(h1, 1.0)
                    if ar is not None and g.try_step(ar):
                        h1 = ar["out"]
                    ps = g.step_slice(h1)
                elif pv == "summarize":
                    gb = g.step_group_by(h1)
                    if gb is not None and g.try_step(gb):
                        h1 = gb["out"]
                    ps = g.step_summarize(h1)
                if ps is not None and g.try_step(ps):
                    h1 = ps["out"]
            _ = g2cfg
            if v == "join":
                lt, rt = g.rr.env[h], g.rr.env[h1]
                common = [n for n in lt.names() if n in rt.names() and lt.cols[lt.name_to_id()[n]].fam == rt.cols[rt.name_to_id()[n]].fam and lt.cols[lt.name_to_id()[n]].fam in ("int", "str")]
                if not common or lt.n * rt.n > 20000:
                    continue
                st = {"in": h, "out": g.new_handle(), "verb": "join", "right": h1, "how": rng.choice(["inner", "left", "full"]), "on_names": [rng.choice(common)]}
            else:
                lt, rt = g.rr.env[h], g.rr.env[h1]
                common = [n for n in lt.names() if n in rt.names() and lt.cols[lt.name_to_id()[n]].fam == rt.cols[rt.name_to_id()[n]].fam]
                if not common:
                    continue
                a = {"in": h, "out": g.new_handle(), "verb": "select", "cols": [cname(x) for x in common]}
                b = {"in": h1, "out": g.new_handle(), "verb": "select", "cols": [cname(x) for x in reversed(common)]}
                if not (g.try_step(a) and g.try_step(b)):
                    continue
                h = a["out"]
                st = {"in": h, "out": g.new_handle(), "verb": "union", "right": b["out"], "distinct": rng.random() < 0.4}
        if st is None:
            continue
        if g.try_step(st):
            h = st["out"]
            applied.append(v)
        else:
            g.nh -= 1
    p = g.finish([s["out"] for s in g.steps if s["verb"] not in ("group_by",)][-3:] or [h])
    p["meta"]["order"] = applied
    return p


def gen_simple(seed):
    """C08(c): element-wise mutate/filter, select, rename, arrange, one grouped summarize, final slice_head."""
    g = ProgGen(seed)
    rng = g.rng
    h = g.add_table("t", cols=["k", "g", "x", "y", "f", "b", "s"])
    w = {"mutate": 3, "filter": 3, "select": 1.5, "rename": 1.5, "arrange": 2}
    h = g.chain(h, rng.randint(1, 5), w, depth=2)
    if rng.random() < 0.6:
        gb = g.step_group_by(h)
        if gb is not None and g.try_step(gb):
            h = gb["out"]
            sm = g.step_summarize(h)
            if g.try_step(sm):
                h = sm["out"]
                h = g.chain(h, rng.randint(0, 3), w, depth=1)
    if rng.random() < 0.7:
        ar = g.step_arrange(h, p_total=1.0)
        if ar is not None and g.try_step(ar):
            h = ar["out"]
        sl = g.step_slice(h)
        if g.try_step(sl):
            h = sl["out"]
    p = g.finish([h])
    p["meta"]["simple"] = True
    return p


TYPE_WEIGHTS = {"mutate": 5, "mutate_agg": 1.5, "mutate_win": 1.2, "filter": 1.5, "select": 1, "rename": 0.7, "arrange": 1, "group_by": 1, "ungroup": 0.5, "summarize": 1.5, "alias": 0.3}


def gen_collide(seed):
    """Several columns with the same name inside one subquery: a column is overwritten one to three times while
    references to the older versions are kept; a verb combination that needs a subquery follows, then
    alias(keep_col_refs=True), then the older versions are used through their original references (filter,
    mutate, arrange, group_by + summarize).  Inside the subquery the versions need distinct labels; outside
    the visible columns keep their names."""
    g = ProgGen(seed)
    rng = g.rng
    h0 = g.add_table("t", cols=["k", "g", "x", "y", "s", "b"])
    h = h0
    versions = {}  # name -> list of (handle, name) references, oldest first
    for c in rng.sample(["x", "y", "g", "k"], rng.randint(1, 3)):
        versions[c] = [(h0, c)]
        for _ in range(rng.randint(1, 3)):
            prev = versions[c][-1] if rng.random() < 0.7 else rng.choice(versions[c])
            op = rng.choice(["add", "mul", "sub"])
            e = fn(op, col(*prev), lit(rng.choice([1, 2, 3, -1])))
            if rng.random() < 0.3:
                e = fn("fill_null", e, lit(rng.choice([0, 7])))
            st = {"in": h, "out": g.new_handle(), "verb": "mutate", "kw": [[c, e]]}
            if g.try_step(st):
                h = st["out"]
                versions[c].append((h, c))
    g.features.add("subquery_name_collision")
    # a verb combination that forces a subquery at the alias
    force = rng.choice(["slice", "window_filter", "window_summarize", "slice_summarize", "none"])
    key = col(h0, "k") if "k" not in versions or len(versions["k"]) == 1 else col(*versions["k"][0])
    if force in ("slice", "slice_summarize"):
        st = {"in": h, "out": g.new_handle(), "verb": "arrange", "by": [{"e": key, "desc": rng.random() < 0.3, "nl": True}]}
        if g.try_step(st):
            h = st["out"]
        st = {"in": h, "out": g.new_handle(), "verb": "slice_head", "n": rng.choice([2, 5, 40]), "offset": rng.choice([0, 0, 1])}
        if g.try_step(st):
            h = st["out"]
    elif force.startswith("window"):
        c = rng.choice(sorted(versions))
        w = fn(rng.choice(["row_number", "rank"]), arr=[{"e": col(*rng.choice(versions[c])), "desc": False, "nl": True}, {"e": key, "desc": False, "nl": True}])
        st = {"in": h, "out": g.new_handle(), "verb": "mutate", "kw": [["w", w]]}
        if g.try_step(st):
            h = st["out"]
    st = {"in": h, "out": g.new_handle(), "verb": "alias", "keep": True}
    if rng.random() < 0.3:
        st["name"] = "sub"
    if g.try_step(st):
        h = st["out"]
    probes = []
    # uses of the versions after the alias
    uses = rng.sample(["filter", "mutate", "arrange", "summarize", "mutate"], rng.randint(2, 4))
    if force == "window_filter" and "filter" not in uses:
        uses.insert(0, "filter")
    for u in uses:
        c = rng.choice(sorted(versions))
        vs = versions[c]
        if u == "filter":
            preds = [fn(rng.choice(["gt", "le", "ne"]), col(*rng.choice(vs)), lit(rng.choice([0, 2, 5])))]
            if force.startswith("window") and g.rr.env[h].has("w") if hasattr(g.rr.env[h], "has") else False:
                preds.append(fn("ge", cname("w"), lit(1)))
            st = {"in": h, "out": g.new_handle(), "verb": "filter", "preds": preds}
        elif u == "mutate":
            terms = [col(*v) for v in rng.sample(vs, min(len(vs), rng.randint(2, 3)))] + ([cname(c)] if rng.random() < 0.6 else [])
            e = terms[0]
            for t2 in terms[1:]:
                e = fn(rng.choice(["add", "sub"]), e, t2)
            st = {"in": h, "out": g.new_handle(), "verb": "mutate", "kw": [[rng.choice(["z", "w2", c]), e]]}
        elif u == "arrange":
            st = {"in": h, "out": g.new_handle(), "verb": "arrange", "by": [{"e": col(*rng.choice(vs)), "desc": rng.random() < 0.5, "nl": rng.random() < 0.5}, {"e": key, "desc": False, "nl": True}]}
        else:
            gb = {"in": h, "out": g.new_handle(), "verb": "group_by", "cols": [col(*rng.choice(vs))]}
            if not g.try_step(gb):
                continue
            probes.append(h)
            h = gb["out"]
            c2 = rng.choice(sorted(versions))
            st = {"in": h, "out": g.new_handle(), "verb": "summarize", "kw": [["n", fn("count_star")], ["sm", fn("sum", col(*rng.choice(versions[c2])))], ["mx", fn("max", col(*versions[c2][0]))]]}
        if g.try_step(st):
            h = st["out"]
            if u == "summarize":
                probes.append(h)
                return g.finish(probes)
        elif u == "summarize":
            # the grouped table stays: leave it as it is
            un = {"in": h, "out": g.new_handle(), "verb": "ungroup"}
            if g.try_step(un):
                h = un["out"]
    probes.append(h)
    return g.finish(probes)


def gen_composed(seed):
    """C15: a chain of single-table verbs with name-based references only (C.<name>), so that the same verb calls can be
    composed into ONE pipeable first (`v1 >> v2 >> v3`) and applied to the table afterwards."""
    g = ProgGen(seed, cfg={"c_only": True})
    rng = g.rng
    h0 = g.add_table("t", cols=["k", "g", "x", "y", "f", "b", "s"])
    w = dict(ALL_WEIGHTS)
    w.pop("alias", None)
    h = g.chain(h0, rng.randint(2, 6), w, depth=rng.choice([1, 2]))
    if g.rr.env[h].group:
        st = g.step_ungroup(h)
        if g.try_step(st):
            h = st["out"]
    g.prog["meta"]["equivalence"] = "precomposed_chain"
    g.prog["meta"]["composed"] = {"source": h0, "last": h}
    return g.finish([h])


def gen_subq_edges(seed):
    """Directed subquery edge cases: a subquery from which nothing is needed (only 0-ary functions follow), unions
    whose operands are subqueries / unions themselves, subquery chains."""
    g = ProgGen(seed)
    rng = g.rng
    h0 = g.add_table("t", cols=["k", "g", "x", "y", "s", "b"])
    kind = rng.choice(["zero_cols", "zero_cols_window", "zero_cols_grouped", "union_of_subqueries", "union_of_subqueries", "union_of_subqueries", "union_chain_alias", "alias_chain", "order_by_window", "order_by_window"])
    g.features.add("subq_edge:" + kind)
    h = h0
    probes = []

    def do(st):
        nonlocal h
        st = dict(st, out=g.new_handle())
        st.setdefault("in", h)
        if g.try_step(st):
            h = st["out"]
            return True
        return False

    key = col(h0, "k")
    if kind.startswith("zero_cols"):
        if kind == "zero_cols_window":
            do({"verb": "mutate", "kw": [["w", fn("row_number", arr=[{"e": key, "desc": False, "nl": True}])]]})
            do({"verb": "filter", "preds": [fn("gt", col(h0, "k"), lit(rng.choice([0, 2])))]}) if rng.random() < 0.5 else None
        else:
            do({"verb": "arrange", "by": [{"e": key, "desc": rng.random() < 0.5, "nl": True}]})
            do({"verb": "slice_head", "n": rng.choice([1, 3, 50]), "offset": rng.choice([0, 1])})
        do({"verb": "alias", "keep": rng.random() < 0.5})
        if kind == "zero_cols_grouped":
            do({"verb": "group_by", "cols": [cname("g")]})
            do({"verb": "summarize", "kw": [["n", fn("count_star")]]})
        elif rng.random() < 0.5:
            do({"verb": "summarize", "kw": [["n", fn("count_star")]]})
        else:
            do({"verb": "mutate", "kw": [["n", fn("count_star")]]})
            do({"verb": "select", "cols": [cname("n")]})
        probes.append(h)
    elif kind == "order_by_window":
        # arrange by a window / aggregate column, then a window function WITHOUT arrange=: it follows the verb order, so
        # the sort key (a window function) ends up inside its OVER clause - SubqueryError or a correct statement
        w = rng.choice([
            fn("cum_sum", cname("x"), arr=[{"e": key, "desc": False, "nl": None}]),
            fn("row_number", arr=[{"e": cname("x"), "desc": True, "nl": True}, {"e": key, "desc": False, "nl": None}]),
            fn("sum", cname("x"), pb=[cname("g")]),
            fn("add", fn("max", cname("y"), pb=[cname("g")]), lit(1)),
        ])
        do({"verb": "mutate", "kw": [["w", w]]})
        do({"verb": "arrange", "by": [{"e": cname("w"), "desc": rng.random() < 0.5, "nl": rng.choice([None, True, False])}, {"e": key, "desc": False, "nl": None}]})
        if rng.random() < 0.4:
            do({"verb": "alias", "keep": rng.random() < 0.5})
        follow = rng.choice([fn("row_number"), fn("shift", cname("x"), lit(1)), fn("add", fn("shift", cname("y"), lit(-1), lit(0)), fn("row_number"))])
        do({"verb": "mutate", "kw": [["r", follow]]})
        probes.append(h)
        if rng.random() < 0.4:
            do({"verb": "slice_head", "n": rng.choice([2, 4]), "offset": rng.choice([0, 1])})
            probes.append(h)
    elif kind in ("union_of_subqueries", "union_chain_alias"):
        # mostly: operands that agree on most columns, so that a comparison on fewer columns would merge rows
        h1 = g.add_table_like(h0, "u", change=(rng.choice(["y", "x", "k"]),)) if rng.random() < 0.7 else g.add_table("u", cols=["k", "g", "x", "y", "s", "b"], shape="small_dups", nrows=rng.randint(0, 5))
        h2 = g.add_table_like(h0, "v", change=("y", "k"), keep_rows=3) if rng.random() < 0.5 else g.add_table("v", cols=["k", "g", "x", "y", "s", "b"], shape="small_dups", nrows=rng.randint(0, 4))
        sides = []
        for hh in (h0, h1):
            h = hh
            if kind == "union_of_subqueries":
                do({"verb": "arrange", "by": [{"e": col(hh, "k"), "desc": False, "nl": True}]})
                do({"verb": "slice_head", "n": rng.choice([2, 4]), "offset": 0})
                do({"verb": "alias", "keep": False})
            elif rng.random() < 0.5:
                do({"verb": "filter", "preds": [fn("ge", col(hh, "k"), lit(rng.choice([0, 2])))]})
            sides.append(h)
        h = sides[0]
        do({"verb": "union", "right": sides[1], "distinct": rng.random() < 0.5})
        probes.append(h)
        if rng.random() < 0.7:
            do({"verb": "alias", "keep": False})
        do({"verb": "union", "right": h2, "distinct": rng.random() < 0.5})
        probes.append(h)
        r = rng.random()
        if r < 0.45:
            if rng.random() < 0.6:
                do({"verb": "alias", "keep": False})
            do({"verb": "group_by", "cols": [cname("g")]})
            do({"verb": "summarize", "kw": [["n", fn("count_star")], ["sx", fn("sum", cname("x"))]]})
            probes.append(h)
        elif r < 0.65:
            # an ungrouped summarize over the union, then a subquery that needs none of its columns
            do({"verb": "summarize", "kw": [["sx", fn("sum", cname("x"))]] + ([["n", fn("count_star")]] if rng.random() < 0.5 else [])})
            probes.append(h)
            do({"verb": "alias", "keep": False})
            do({"verb": rng.choice(["summarize", "mutate"]), "kw": [["m", fn("count_star")]]})
            probes.append(h)
        elif r < 0.85:
            do({"verb": "select", "cols": [cname(rng.choice(["g", "x", "s"]))]})
            probes.append(h)
    else:
        for _ in range(rng.randint(2, 4)):
            do({"verb": "alias", "keep": rng.random() < 0.5})
            c = rng.choice(["x", "y"])
            do({"verb": "mutate", "kw": [[c, fn("add", cname(c), lit(1))]]})
            if rng.random() < 0.5:
                do({"verb": "arrange", "by": [{"e": cname("k"), "desc": False, "nl": True}]})
                do({"verb": "slice_head", "n": rng.choice([3, 6, 30]), "offset": 0})
        probes.append(h)
    probes = [p for p in dict.fromkeys(probes) if not g.rr.env[p].group] or [h]
    return g.finish(probes)


def gen_types(seed):
    """C12: all column types (sized ints, Float32, bool, string, date, datetime) x verbs that create columns."""
    g = ProgGen(seed)
    rng = g.rng
    cols = ["k", "i8", "i16", "i32", "f32", "f", "b", "s", "d", "ts"]  # (unsigned columns: D1, only in the C13/C17 sweeps)
    h0 = g.add_table("t", cols=cols, shape=rng.choice(["small_dups", "null_heavy", "single", "empty"]), nrows=rng.choice([0, 1, 5, 9]))
    h = g.chain(h0, rng.randint(1, 6), TYPE_WEIGHTS, depth=rng.choice([1, 2]))
    r = rng.random()
    if r < 0.3 and not g.rr.env[h].group:
        h1 = g.add_table("u", cols=["k", "i8", "f32", "s"], shape="small_dups", nrows=rng.randint(0, 6))
        st = g.step_join(h, h1, how=rng.choice(["left", "full", "inner"]))
        if st is not None and g.try_step(st):
            h = st["out"]
    elif r < 0.45 and not g.rr.env[h].group:
        # union of same-typed columns
        h1 = g.add_table("u", cols=cols, shape="small_dups", nrows=rng.randint(0, 5))
        common = [n for n in g.rr.env[h].names() if n in cols and g.rr.env[h].cols[g.rr.env[h].name_to_id()[n]].name0 == n]
        if common:
            a = {"in": h, "out": g.new_handle(), "verb": "select", "cols": [cname(x) for x in common]}
            b = {"in": h1, "out": g.new_handle(), "verb": "select", "cols": [cname(x) for x in reversed(common)]}
            if g.try_step(a) and g.try_step(b):
                st = g.step_union(a["out"], b["out"])
                if g.try_step(st):
                    h = st["out"]
    elif r < 0.6:
        st = {"in": h, "out": g.new_handle(), "verb": "collect", "keep": True}
        if g.try_step(st):
            h = st["out"]
            g.prog["meta"]["skip_backends"] = ["sqlite"]
    h = g.chain(h, rng.randint(0, 2), TYPE_WEIGHTS, depth=1)
    if rng.random() < 0.4 and not g.rr.env[h].group:
        # type-preserving window / aggregate functions over every column type (forward and backward shift, with and
        # without a fill value; min / max keep the type of their argument)
        t = g.rr.env[h]
        names = {n: i for n, i in t.vis}
        keyn = next((n for n in ("k",) if n in names), None)
        if keyn is not None:
            arr = [{"e": cname(keyn), "desc": rng.random() < 0.3, "nl": True}]
            kw = []
            for n in rng.sample(sorted(names), min(len(names), rng.randint(2, 5))):
                fam = t.cols[names[n]].fam
                if fam == "null":
                    continue
                off = rng.choice([-2, -1, 1, 2])
                fill = g.eg.leaf(fam, [], True) if rng.random() < 0.4 and fam in ("int", "float", "bool", "str", "date", "datetime") else lit(None)
                kw.append([f"sh_{n}"[:12], fn("shift", cname(n), lit(off), fill, arr=arr)])
                if fam in ("int", "float", "date", "datetime", "str") and rng.random() < 0.5:
                    kw.append([f"mx_{n}"[:12], fn(rng.choice(["min", "max"]), cname(n), pb=[cname("b")] if "b" in names and rng.random() < 0.5 else None)])
            if kw:
                st = {"in": h, "out": g.new_handle(), "verb": "mutate", "kw": kw}
                if g.try_step(st):
                    h = st["out"]
                    g.features.add("typed_window")
    probes = [s["out"] for s in g.steps if s["verb"] not in ("group_by",)][-4:] or [h0]
    return g.finish(probes)
