"""pytest plugin: runs the repository's own test-suites with the monitors switched on
(`-p pdtverif.pytest_plugin`, PDT_VERIF=1).  SAN invariants I1-I7, I10, I12, I14 fire on every verb
application made by the tests, I8/I9 on every export; violations are written to $PDT_VERIF_REPORT."""

import json
import os

import pytest

_current = {"test": None}
_records = []


def pytest_configure(config):
    os.environ.setdefault("PDT_VERIF", "1")
    from pdtverif import monitors as M

    M.install_all()
    M.SAN.check_exports = True


@pytest.hookimpl(hookwrapper=True)
def pytest_runtest_call(item):
    from pdtverif import monitors as M

    M.SAN.drain()
    outcome = yield
    vs = M.SAN.drain()
    for v in vs:
        _records.append({"test": item.nodeid, **v, "test_failed": outcome.excinfo is not None})


def pytest_sessionfinish(session, exitstatus):
    from pdtverif import monitors as M

    path = os.environ.get("PDT_VERIF_REPORT")
    if path:
        with open(path, "w") as fh:
            json.dump({"violations": _records, "counts": dict(M.SAN.counts), "verbs_seen": dict(M.SAN.verbs_seen),
                       "anchors_hit": dict(M.INT.hits), "monitor_error": M.SAN.last_monitor_error}, fh, default=str)
