"""Common machinery of all checks: case loop, verdicts (violated / held / inconclusive), known
findings, replay files, evidence, sharding of thorough tiers over subprocesses."""

from __future__ import annotations

import collections
import hashlib
import json
import os
import shutil
import subprocess
import sys
import tempfile
import time

from . import kf, render

VERIF = os.path.dirname(os.path.dirname(os.path.abspath(__file__)))
EVID = os.path.join(VERIF, "evidence")
REPLAY = os.path.join(EVID, "replay")


def jdump(obj):
    return json.dumps(obj, default=str, sort_keys=True)


class CheckRun:
    """Accumulates what one check observed."""

    def __init__(self, prop, tier, seed, shard=None):
        self.prop = prop
        self.tier = tier
        self.seed = seed
        self.shard = shard
        self.t0 = time.time()
        self.evaluations = 0
        self.shapes = set()
        self.samples = []
        self.counters = collections.Counter()
        self.violations = []  # dict(finding, program, replay)
        self.known = collections.Counter()  # KF id -> reproductions
        self.known_what = {}
        self.other = collections.Counter()  # findings owned by other properties
        self.inconclusive = []
        self.kf_entries = kf.load()
        self.extra = {}
        self.max_violation_files = 5
        self.shrinks_done = 0
        self.max_shrinks = 25

    # ---- cases ------------------------------------------------------------------------
    def case(self, prog=None, shape=None, nontrivial=True, sample=None):
        self.evaluations += 1
        if prog is not None and shape is None:
            shape = render.shape_key(prog)
            nontrivial = render.nontrivial(prog)
        if shape is not None and nontrivial:
            self.shapes.add(hashlib.md5(repr(shape).encode()).hexdigest()[:16])
        if prog is not None and "steps" in prog:
            # how much of the workload lies in the shadow of a known finding: a finding of the listed kinds in such a
            # program is excused, so the share of programs carrying each feature is reported with the evidence
            self.counters["programs_screened_for_known_finding_features"] += 1
            idxs = list(range(len(prog["steps"])))
            for e in self.kf_entries:
                if e.get("status") == "known" and self.prop in e["property"]:
                    feat = kf.FEATURES.get(e["feature"])
                    try:
                        if feat is not None and feat(prog, idxs, None):
                            self.counters["programs_with_feature_of:" + e["id"]] += 1
                    except Exception:  # noqa: BLE001
                        self.counters["feature_predicate_errors:" + e["id"]] += 1
        if sample is not None and len(self.samples) < 4:
            self.samples.append(sample)
        elif prog is not None and len(self.samples) < 3 and len(prog.get("steps", [])) >= 2 and self.evaluations % 7 == 1:
            self.samples.append(render.program(prog, max_rows=4))

    # ---- findings ----------------------------------------------------------------------
    def finding(self, f, prog, owned=True, reshrink=None, ctx=None):
        """Route one finding: known finding, violation, or somebody else's."""
        if not owned:
            self.other[f.kind] += 1
            return "other"
        e = kf.classify(self.kf_entries, self.prop, f, prog, ctx) if prog is not None else kf.classify_plain(self.kf_entries, self.prop, f)
        if e is not None:
            self.known[e["id"]] += 1
            self.known_what[e["id"]] = e.get("what", e.get("feature"))
            return "known"
        # Not explained on the program as generated: reduce it to a minimal witness of the *same* finding
        # and classify that (features of a known finding are easier to recognise without bystander steps;
        # the shrunk program still exhibits this finding, so this cannot excuse a different defect).
        wit, runs = prog, 0
        if reshrink is not None and prog is not None and self.shrinks_done < self.max_shrinks:
            self.shrinks_done += 1
            try:
                from . import shrink

                wit, runs = shrink.shrink(prog, reshrink, budget=120)
            except Exception:
                wit = prog
            if wit is not prog:
                e = kf.classify(self.kf_entries, self.prop, f, wit, None)
                if e is not None:
                    self.known[e["id"]] += 1
                    self.known_what[e["id"]] = e.get("what", e.get("feature"))
                    self.counters["known_findings_recognised_after_shrinking"] += 1
                    return "known"
        self.violation(f, wit, None, runs)
        return "violation"

    def violation(self, f, prog, reshrink=None, runs=0):
        rec = {"finding": f.brief() if hasattr(f, "brief") else str(f)}
        if len(self.violations) < self.max_violation_files:
            wit = prog
            if reshrink is not None and prog is not None:
                try:
                    from . import shrink

                    wit, runs = shrink.shrink(prog, reshrink, budget=120)
                except Exception:
                    wit = prog
            os.makedirs(REPLAY, exist_ok=True)
            name = f"{self.prop}_{self.tier}_s{self.seed}_{len(self.violations)}_{os.getpid()}.json"
            path = os.path.join(REPLAY, name)
            with open(path, "w") as fh:
                fh.write(jdump({"property": self.prop, "seed": self.seed, "tier": self.tier, "finding": rec["finding"],
                                "kind": getattr(f, "kind", None), "backend": getattr(f, "backend", None),
                                "shrink_runs": runs, "program": wit,
                                "source": render.program(wit) if isinstance(wit, dict) and "steps" in wit else None}))
            rec["replay"] = path
        self.violations.append(rec)

    def inconclusive_if(self, cond, why):
        if cond:
            self.inconclusive.append(why)

    # ---- merging shards ------------------------------------------------------------------
    def dump_partial(self, path):
        with open(path, "w") as fh:
            fh.write(jdump({
                "evaluations": self.evaluations,
                "shapes": sorted(self.shapes),
                "samples": self.samples,
                "counters": dict(self.counters),
                "violations": self.violations,
                "known": dict(self.known),
                "known_what": self.known_what,
                "other": dict(self.other),
                "inconclusive": self.inconclusive,
                "extra": self.extra,
            }))

    def merge_partial(self, d):
        self.evaluations += d["evaluations"]
        self.shapes |= set(d["shapes"])
        for s in d["samples"]:
            if len(self.samples) < 5:
                self.samples.append(s)
        self.counters.update(d["counters"])
        self.violations.extend(d["violations"])
        self.known.update(d["known"])
        self.known_what.update(d["known_what"])
        self.other.update(d["other"])
        self.inconclusive.extend(d["inconclusive"])
        for k, v in d.get("extra", {}).items():
            if isinstance(v, dict):
                cur = self.extra.setdefault(k, {})
                for kk, vv in v.items():
                    cur[kk] = cur.get(kk, 0) + vv if isinstance(vv, int | float) else vv
            elif isinstance(v, list):
                self.extra.setdefault(k, [])
                for x in v:
                    if x not in self.extra[k] and len(self.extra[k]) < 400:
                        self.extra[k].append(x)
            else:
                self.extra[k] = v

    # ---- the end ------------------------------------------------------------------------
    def finish(self, rule, assumptions, level="exploration"):
        from . import monitors as M

        os.makedirs(EVID, exist_ok=True)
        cov = {
            "evaluations": self.evaluations,
            "distinct_nontrivial": len(self.shapes),
            "rule": rule,
            "samples": self.samples or ["<no sample recorded>"],
            "counters": dict(self.counters),
            "monitor_invariant_evaluations": dict(M.SAN.counts),
            "anchors_hit": dict(M.INT.hits),
            "subquery_reasons_seen": dict(M.INT.subquery_reasons),
            "impl_lookups": len(M.INT.impl_seen),
            "verbs_seen": dict(M.SAN.verbs_seen),
            "sql_statements_observed": M.SQL.counts.get("statements", 0),
            "sql_authorizer_events": M.SQL.counts.get("auth_events", 0),
            "known_findings_reproduced": dict(self.known),
            "findings_owned_by_other_properties": dict(self.other),
            "inconclusive": self.inconclusive,
        }
        cov.update(self.extra)
        ev = {
            "property_id": self.prop,
            "tier": self.tier,
            "seed": int(self.seed),
            "level": level,
            "coverage": cov,
            "assumptions": assumptions,
            "wall_s": round(time.time() - self.t0, 2),
            "violations": len(self.violations),
        }
        if self.shard is None:
            with open(os.path.join(EVID, f"{self.prop}.json"), "w") as fh:
                json.dump(ev, fh, indent=1, default=str, sort_keys=True)
        for kid, n in sorted(self.known.items()):
            print(f"KNOWN-FINDING: property={self.prop} {kid} {self.known_what.get(kid, '')} (reproduced {n}x)")
        if self.violations:
            for v in self.violations[:10]:
                print(f"VIOLATION property={self.prop} replay={v.get('replay', '<see evidence>')}")
                print("   " + v["finding"][:400])
            if len(self.violations) > 10:
                import re as _re

                agg = collections.Counter(_re.sub(r"\|[^:]*:", "|..:", _re.sub(r"\d+", "#", v["finding"]))[:150] for v in self.violations)
                print("  violation classes:")
                for k, c in agg.most_common(40):
                    print(f"   {c:4d} x {k}")
            print(f"{self.prop}: {len(self.violations)} violation(s) in {self.evaluations} cases")
            return 1
        if self.inconclusive:
            for w in self.inconclusive[:10]:
                print(f"INCONCLUSIVE property={self.prop} {w}")
            return 2
        print(f"{self.prop}: held on {self.evaluations} cases ({len(self.shapes)} distinct non-trivial shapes), "
              f"{sum(self.known.values())} known-finding reproductions, {round(time.time() - self.t0, 1)}s")
        return 0


def run_shards(prop, tier, seed, nshards, timeout, extra_args=()):
    """Thorough tier: run `nshards` worker subprocesses (never multiprocessing.Pool), merge partials.
    A worker that times out or dies makes the run inconclusive, not violated."""
    tmp = tempfile.mkdtemp(prefix=f"pdtverif_{prop}_")
    procs = []
    try:
        for i in range(nshards):
            out = os.path.join(tmp, f"part{i}.json")
            cmd = [sys.executable, "-B", os.path.join(VERIF, "bin", "check.py"), prop, "--tier", tier, "--seed", str(seed),
                   "--shard", f"{i}/{nshards}", "--partial", out, *extra_args]
            procs.append((i, out, subprocess.Popen(cmd, stdout=subprocess.PIPE, stderr=subprocess.STDOUT, text=True)))
        results = []
        deadline = time.time() + timeout
        for i, out, p in procs:
            try:
                so, _ = p.communicate(timeout=max(1, deadline - time.time()))
            except subprocess.TimeoutExpired:
                p.kill()
                so, _ = p.communicate()
                results.append((i, None, "timeout"))
                continue
            if os.path.exists(out):
                results.append((i, json.load(open(out)), None))
            else:
                results.append((i, None, f"worker exit {p.returncode}: {so[-400:]}"))
        return results
    finally:
        shutil.rmtree(tmp, ignore_errors=True)
