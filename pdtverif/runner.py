"""Runs one program on the real backends under the monitors and on REF, and turns what the monitors
and oracles observed into *findings* (typed records).  Checks decide which finding kinds they own.

Finding kinds
  value:<be>    exported frame differs from REF (names, order, rows)           O-REF
  diff          Polars frame differs from SQLite frame (no REF taint involved)  O-DIFF
  exc:<be>      a step / export raised although REF accepts (class not permitted for that backend)
  accept:<be>   a step was accepted although the documentation says it must be rejected
  excls:<be>    a step was rejected with a class other than the documented one
  names:<be>    join output names violate the documented naming rule
  meta:<be>     I8  metadata (columns(), iteration, len, in, dir) disagrees with the exported frame
  type:<be>     I9  static dtype is not a supertype of the exported dtype
  sql           I11 statement count / kind / authorizer codes
  san:<inv>     SAN invariant (I1..I7, I10, I12, I14, clone, ...)
  reexport:<be> I13 second export / build_query differs from the first
"""

from __future__ import annotations

import dataclasses
import traceback

from . import compare, drive, ref
from . import monitors as M

SQL_PERMITTED = {"SubqueryError", "NotSupportedError"}
import re as _re

# D16: Polars' horizontal min/max returns a length-1 series for columns that originate from literals or
# from join padding (reproduced in pure Polars, see DESIGN section 4 D16)
ENGINE_BUG_RE = _re.compile(
    r"_horizontal\(.*to be broadcasted, ensure it is a scalar|expression: \[\(\S+\) [=!<>]+ \(.*to be broadcasted, ensure it is a scalar|sort expressions must have same length as DataFrame"
    r"|output length of `map` \(1\) must be equal to the input length.*_horizontal\(", _re.S
)


def _ref_has_taint(rt):
    return any(v is ref.TAINT for c in rt.cols.values() for v in c.data)


def _has_horizontal(prog):
    return '"op": "hm' in __import__("json").dumps(prog)


def polars_horizontal_bug_applies(prog, where):
    """D16 (program feature): a horizontal min/max on Polars whose inputs may be columns that originate from a
    literal (constant column) or from outer-join padding — Polars then returns a length-1 series (wrong
    broadcast / ShapeError / wrong aggregate), independently of pydiverse.transform."""
    from . import kf

    known = {st["out"] for st in prog["steps"]}
    idxs = kf.ancestors(prog, where) if (isinstance(where, int) and where < len(prog["steps"])) or where in known else list(range(len(prog["steps"])))
    has_h = False
    trigger = False
    for i in idxs:
        st = prog["steps"][i]
        for n in kf.walk(st):
            if n.get("k") == "fn" and n["op"] in ("hmax", "hmin"):
                has_h = True
            if literal_left_comparison(n):
                has_h = True  # fifth trigger: `lit <cmp> scalar column` is a length-1 series, too
        if st["verb"] == "mutate" and any(not kf.has_col(e) for _n, e in st["kw"]):
            trigger = True
        if st["verb"] == "mutate" and any(n.get("k") == "fn" and n["op"] in kf.AGG and not n.get("pb") for n in kf.walk(st["kw"])):
            trigger = True  # an unpartitioned aggregate in mutate is a scalar column for Polars, like a literal
        if st["verb"] == "summarize" and any(not kf.has_col(e) for _n, e in st["kw"]):
            trigger = True
        if st["verb"] == "join":
            trigger = True  # padded rows (outer joins) and runs of one operand row matched several times
    return has_h and trigger


def literal_left_comparison(n):
    """D16 (fifth trigger, node feature): a comparison whose LEFT operand is a literal and whose right operand
    contains a column.  When that column is a scalar column for Polars (constant column, unpartitioned aggregate
    in mutate), `pl.lit(a) == pl.col(c)` evaluates to a length-1 series: a ShapeError at top level, a wrong
    aggregate below `.over()` (pure-Polars reproduction in notes/polars_bugs.py); `pl.col(c) == pl.lit(a)` is
    right."""
    from . import kf

    return (
        isinstance(n, dict)
        and n.get("k") == "fn"
        and (
            (n.get("op") in ("eq", "ne", "lt", "le", "gt", "ge") and len(n.get("a") or ()) == 2)
            or (n.get("op") == "is_in" and len(n.get("a") or ()) >= 2)  # lit.is_in(c, ...) is compiled to (lit == c) | ...
        )
        and not kf.has_col(n["a"][0])
        and any(kf.has_col(a) for a in n["a"][1:])
    )


def has_literal_left_comparison(prog):
    from . import kf

    return any(literal_left_comparison(n) for st in prog["steps"] for n in kf.walk(st))


def has_shift_fill_on_sized_column(prog):
    """D24 (program feature): `shift` with a literal fill value in a program whose tables have sized columns (Int8/16/32,
    Float32).  For `col(i32).shift(1, fill_value=lit(-3: Int64))` the lazy schema of Polars says Int32, the data is Int64;
    operators over such a column then panic ("cannot get ref Int64 from Int32"; pure-Polars reproduction in notes/polars_bugs.py)."""
    from . import kf

    sized = any(dt in ("Int8", "Int16", "Int32", "UInt8", "UInt16", "UInt32", "Float32") for ts in prog["tables"] for _cn, dt in ts["schema"])
    return sized and any(
        n.get("k") == "fn" and n.get("op") == "shift" and len(n.get("a") or ()) >= 3 and isinstance(n["a"][2], dict) and n["a"][2].get("k") == "lit" and n["a"][2].get("v") is not None
        for st in prog["steps"]
        for n in kf.walk(st)
    )


def has_literal_case_under_operator(prog):
    """D16 (third trigger, program feature): an operator one of whose operands is a case expression with only
    literal branch values while all its other operands are literals (or such case expressions).  Polars
    evaluates the case expression to a length-1 series when the condition column is uniform (all true / all
    false / all null) and then fails to broadcast the operator's result (pure-Polars reproduction in
    notes/polars_bugs.py)."""
    from . import kf

    def lit_case(n):
        return n.get("k") in ("case", "map") and all(not kf.has_col(v) for _c, v in n.get("cases", [])) and (n.get("default") is None or not kf.has_col(n["default"]))

    def scalarish(n):
        if not isinstance(n, dict):
            return True
        if n.get("k") in ("case", "map"):
            return lit_case(n)
        return not kf.has_col(n)

    for st in prog["steps"]:
        for n in kf.walk(st):
            if n.get("k") == "fn" and n.get("a") and any(isinstance(a, dict) and a.get("k") in ("case", "map") and lit_case(a) for a in n["a"]) and all(scalarish(a) for a in n["a"]):
                return True
    return False


def contradiction_in_filter(prog, where, ref_env):
    """D22 (program feature): a filter predicate containing a conjunction of an expression and its negation (`e & ~e`,
    `(x != y) & (x == y)`, ...); columns are compared by identity (REF ids), not by spelling."""
    import json as _json

    from . import kf

    COMPL = {"eq": "ne", "ne": "eq", "lt": "ge", "ge": "lt", "le": "gt", "gt": "le"}

    def canon(e, cur):
        if isinstance(e, dict):
            if e.get("k") == "col" and e["t"] in ref_env:
                return {"id": ref_env[e["t"]].name_to_id().get(e["n"], e["n"])}
            if e.get("k") == "c" and cur is not None:
                return {"id": cur.name_to_id().get(e["n"], e["n"])}
            out = {k: canon(v, cur) for k, v in e.items() if k != "sh"}
            if out.get("k") == "fn" and out.get("op") in ("hany", "or", "hall", "and") and out.get("a"):
                # neutral elements (`m | False`, `m & True`) are simplified away by the optimizer first
                neutral = out["op"] in ("hall", "and")
                rest = [a for a in out["a"] if not (isinstance(a, dict) and a.get("k") == "lit" and a.get("v") is neutral)]
                if rest and len(rest) < len(out["a"]):
                    out = dict(out, a=rest)
                    if len(rest) == 1:
                        return rest[0]
            if out.get("k") == "fn" and out.get("op") in ("hany", "hall", "and", "or") and out.get("a") and all(_json.dumps(a, sort_keys=True, default=str) == _json.dumps(out["a"][0], sort_keys=True, default=str) for a in out["a"]):
                return out["a"][0]  # any(m, m) is m (the optimizer sees it like that, too)
            return out
        if isinstance(e, list):
            return [canon(v, cur) for v in e]
        return e

    def key(e):
        return _json.dumps(e, sort_keys=True, default=str)

    def negates(a, b):
        if isinstance(b, dict) and b.get("k") == "fn" and b["op"] == "invert" and key(b["a"][0]) == key(a):
            return True
        if isinstance(a, dict) and isinstance(b, dict) and a.get("k") == "fn" and b.get("k") == "fn" and COMPL.get(a["op"]) == b["op"] and len(a["a"]) == 2 and len(b["a"]) == 2:
            ka, kb = [key(x) for x in a["a"]], [key(x) for x in b["a"]]
            return ka == kb or (ka == kb[::-1] and a["op"] in ("eq", "ne"))
        return False

    known = {st["out"] for st in prog["steps"]}
    idxs = kf.ancestors(prog, where) if where in known else list(range(len(prog["steps"])))
    for i in idxs:
        st = prog["steps"][i]
        if st["verb"] != "filter":
            continue
        cur = ref_env.get(st["in"])
        for n in kf.walk(canon(st["preds"], cur)):
            if n.get("k") == "fn" and n["op"] in ("and", "hall") and len(n["a"]) >= 2:
                ops = [a for a in n["a"] if isinstance(a, dict)]
                if any(negates(a, b) or negates(b, a) for j, a in enumerate(ops) for b in ops[j + 1:]):
                    return True
    return False


def _unoptimized_plan_agrees(tbl, rtable, mode, f32_inputs):
    try:
        import polars as pl

        import pydiverse.transform as pdt

        with M.SAN.paused() if hasattr(M.SAN, "paused") else _nullctx():
            lf = tbl >> pdt.export(pdt.Polars(lazy=True))
        df = lf.collect(optimizations=pl.QueryOptFlags.none())
        p, _ = compare.compare_with_ref(df, rtable, mode, single_precision_inputs=f32_inputs)
        return p is None
    except BaseException:  # noqa: BLE001
        return False


class _nullctx:
    def __enter__(self):
        return self

    def __exit__(self, *a):
        return False


def has_constant_condition(prog):
    from . import kf

    for st in prog["steps"]:
        for n in kf.walk(st):
            if n.get("k") == "case" and any(not kf.has_col(c) for c, _v in n["cases"]):
                return True
    return False


@dataclasses.dataclass
class Finding:
    kind: str
    backend: str
    step: int | None
    detail: str
    verb: str | None = None
    exc: str | None = None
    extra: dict | None = None

    def brief(self):
        return f"[{self.kind}] be={self.backend} step={self.step} verb={self.verb} exc={self.exc}: {self.detail[:300]}"


class Outcome:
    def __init__(self, prog):
        self.prog = prog
        self.findings: list[Finding] = []
        self.excluded = {}  # backend -> rule
        self.refused = {}  # backend -> (step, class)
        self.rejected = {}  # backend -> (step, class) documented rejection reproduced
        self.steps_ok = {}  # backend -> number of accepted steps
        self.probes_judged = 0
        self.source_frames_checked = 0
        self.judged_as = {}
        self.frames = {}  # (backend, handle) -> df
        self.sql_texts = {}
        self.stats = {}
        self.ref_env = {}  # backend -> REF handle environment (for known-finding features)
        self.real_env = {}  # backend -> real handle environment
        self.ref_ok = {}

    def add(self, *a, **kw):
        self.findings.append(Finding(*a, **kw))


def mode_of(be):
    return "pol" if be == "pol" else "sql"


def static_type_problem(tbl, df, be, bool_as_int_ok=None):
    """I9: static dtype must be a supertype of (for concrete types: equal to) the exported dtype.
    bool_as_int_ok: names for which a Bool column may come back as 0/1 integers on SQLite (None: any column; the
    pipeline checks pass () since FIX-59 typed the last untyped boolean expression)."""
    import polars as pl

    from pydiverse.common import Dtype
    from pydiverse.transform._internal.tree import types

    probs = []
    for c in tbl:
        st = types.without_const(c.dtype())
        pt = df.schema[c.name]
        try:
            et = Dtype.from_polars(pt)
        except Exception as e:  # unknown polars type
            probs.append(f"{c.name}: exported polars type {pt} has no pdt type ({e})")
            continue
        if pt == pl.Null or isinstance(et, type(types.NullType())):
            if df.get_column(c.name).null_count() != df.height:
                probs.append(f"{c.name}: null-typed column with non-null values")
            continue
        if isinstance(st, types.NullType):
            if df.get_column(c.name).null_count() != df.height:
                probs.append(f"{c.name}: static type Null but exported {et} with non-null values")
            continue
        if be == "pol":
            ok = et.is_subtype(st) if hasattr(et, "is_subtype") else et == st
            if types.is_subtype(st) and not (et == st or _same_string(et, st)):
                ok = False
        else:
            ok = _family(et) == _family(st)
            if not ok and _family(st) == "float" and _family(et) == "int" and be == "sqlite":
                # D17: SQLite is dynamically typed: an integral value of an untyped expression (CASE with an integer
                # branch, ROUND, ...) comes back as INTEGER although the expression is a float expression
                ok = True
            if not ok and _family(st) == "Bool" and _family(et) == "int" and (bool_as_int_ok is None or c.name in bool_as_int_ok):
                # D17: SQLite has no boolean storage class; an untyped boolean expression comes back as 0/1
                vals = set(df.get_column(c.name).drop_nulls().to_list())
                ok = vals <= {0, 1}
        if not ok:
            probs.append(f"{c.name}: static {st} vs exported {et}")
    return probs


def _same_string(a, b):
    from pydiverse.common import String

    return isinstance(a, String) and isinstance(b, String)


def _family(t):
    if t.is_int():
        return "int"
    if t.is_float():
        return "float"
    n = type(t).__name__
    if n in ("Decimal",):
        return "float"
    if n in ("String", "Enum"):
        return "str"
    return n


def metadata_problem(tbl, df):
    """I8."""
    import pydiverse.transform as pdt

    cols = tbl >> pdt.columns()
    it = [c.name for c in tbl]
    probs = []
    if list(df.columns) != list(cols):
        probs.append(f"columns() {cols} != exported {list(df.columns)}")
    if it != list(cols):
        probs.append(f"iteration {it} != columns() {cols}")
    if len(tbl) != df.width:
        probs.append(f"len {len(tbl)} != frame width {df.width}")
    if sorted(dir(tbl)) != sorted(cols):  # the dir() builtin sorts
        probs.append(f"dir {dir(tbl)} != columns() {cols}")
    for n in df.columns:
        if n not in tbl:
            probs.append(f"`{n}` in frame but not `in` table")
    return probs


def run_program(prog, backends=("pol", "sqlite"), opts=None, be_cache=None) -> Outcome:
    opts = opts or {}
    out = Outcome(prog)
    steps = prog["steps"]
    probes = prog.get("probes") or ([steps[-1]["out"]] if steps else [prog["tables"][0]["handle"]])
    want_types = opts.get("types", True)
    want_meta = opts.get("meta", True)
    reexport_every = opts.get("reexport_every", 8)
    share = opts.get("share", True)
    n_exports = 0
    f32_inputs = any(dt == "Float32" for ts in prog["tables"] for _cn, dt in ts["schema"])
    for be in backends:
        if be in prog.get("meta", {}).get("skip_backends", ()):
            continue
        mode = mode_of(be)
        backend = (be_cache or {}).get(be) or drive.Backend(be)
        if be_cache is not None:
            be_cache[be] = backend
        rr = drive.RealRun(prog, backend, share=share)
        rf = drive.RefRun(prog, mode)
        try:
            with M.SQL.setup():
                rr.setup_tables()
            rf.setup_tables()
        except Exception as e:
            out.add("harness", be, None, f"table setup failed: {type(e).__name__}: {e}")
            continue
        alive_real = True
        ref_excluded = None
        ok_steps = 0
        handles_ok = {t["handle"] for t in prog["tables"]}
        ref_ok = set(handles_ok)
        for i, st in enumerate(steps):
            if st["in"] not in handles_ok or ("right" in st and st["right"] not in handles_ok):
                continue
            # ---- real
            M.SQL.begin()
            real_exc = None
            try:
                new = rr.apply(st)
            except (KeyboardInterrupt, SystemExit):
                raise
            except BaseException as e:  # collect() exports inside the verb: a pyo3 PanicException derives from BaseException
                real_exc = e
            stm, _au = M.SQL.end()
            if stm and be == "sqlite":
                out.add("sql", be, i, f"verb `{st['verb']}` executed {len(stm)} statement(s) while building", verb=st["verb"])
            # ---- REF
            ref_exc = None
            ref_new = None
            if st["in"] in ref_ok and ("right" not in st or st["right"] in ref_ok) and ref_excluded is None:
                try:
                    right_names = None
                    if st["verb"] == "join" and real_exc is None:
                        import pydiverse.transform as pdt

                        lnames = rr.env[st["in"]] >> pdt.columns()
                        allnames = new >> pdt.columns()
                        right_names = allnames[len(lnames) :]
                        lt, rt = rf.env[st["in"]], rf.env[st["right"]]
                        why = None
                        if allnames[: len(lnames)] != lnames:
                            why = "left names changed"
                        elif len(set(allnames)) != len(allnames):
                            why = "names not pairwise distinct"
                        elif len(right_names) != len(rt.vis):
                            why = f"{len(right_names)} right names for {len(rt.vis)} right columns"
                        else:
                            why = ref.join_names_ok(lt.names(), rt.names(), right_names, st.get("suffix"), rt.name)
                        if why:
                            out.add("names:" + be, be, i, f"{why}: left={lt.names()} right={rt.names()} -> {allnames}", verb="join")
                            right_names = None
                    ref_new = rf.apply(st, right_names=right_names) if st["verb"] == "join" else rf.apply(st)
                except ref.RefReject as e:
                    ref_exc = e
                except ref.DomainExcluded as e:
                    ref_excluded = e.rule
                    out.excluded[be] = e.rule
                except (ref.RefUnsupported, KeyError) as e:
                    ref_excluded = "REF"
                    out.excluded[be] = "REF:" + type(e).__name__ + ":" + str(e)[:60]
            # ---- judge the step outcome
            if real_exc is not None:
                cls = type(real_exc).__name__
                if ref_exc is not None:
                    if cls in ref_exc.cls.split("|"):
                        out.rejected[be] = (i, cls)
                    else:
                        out.add("excls:" + be, be, i, f"rejected with {cls} but documented class is {ref_exc.cls}: {real_exc}", verb=st["verb"], exc=cls)
                elif ref_excluded is None and st["in"] in ref_ok:
                    if be != "pol" and cls in SQL_PERMITTED:
                        out.refused[be] = (i, cls)
                    else:
                        out.add("exc:" + be, be, i, f"{cls}: {str(real_exc)[:400]}", verb=st["verb"], exc=cls,
                                extra={"tb": traceback.format_exception_only(type(real_exc), real_exc)[-1][:300]})
                else:
                    # out of REF's judgement: only internal error classes are still a finding
                    if cls in ("AssertionError", "KeyError", "AttributeError", "IndexError", "RecursionError") and ref_excluded is None:
                        out.add("exc:" + be, be, i, f"{cls}: {str(real_exc)[:400]}", verb=st["verb"], exc=cls)
                continue
            # real accepted
            rr.env[st["out"]] = new
            handles_ok.add(st["out"])
            ok_steps += 1
            if ref_exc is not None:
                out.add("accept:" + be, be, i, f"accepted although documented rejection {ref_exc.cls}: {ref_exc}", verb=st["verb"])
                continue
            if ref_new is not None:
                rf.env[st["out"]] = ref_new
                ref_ok.add(st["out"])
        out.steps_ok[be] = ok_steps
        out.ref_env[be] = rf.env
        out.real_env[be] = rr.env
        out.ref_ok[be] = ref_ok
        # ---- probes: export and compare
        for h in probes:
            if h not in handles_ok:
                continue
            tbl = rr.env[h]
            M.SQL.begin()
            df = None
            exp_exc = None
            try:
                df = rr.export(h)
            except (KeyboardInterrupt, SystemExit):
                raise
            except BaseException as e:  # pyo3 PanicException derives from BaseException
                exp_exc = e
            stm, au = M.SQL.end()
            n_exports += 1
            if exp_exc is not None:
                cls = type(exp_exc).__name__
                judged = h in ref_ok
                if judged and _ref_has_taint(rf.env[h]):
                    # evaluating a cell the documentation leaves undefined (division by zero, overflow,
                    # non-finite results, ...) may legitimately raise inside the engine
                    out.excluded[be] = "D3:engine error on undefined data"
                    continue
                if be == "sqlite" and "ON clause references tables to its right" in str(exp_exc):
                    # D19: SQLite 3.40 cannot flatten a FULL JOIN inside a compound / sub-select (engine limit)
                    out.excluded[be] = "D19"
                    continue
                if be == "pol" and "to be broadcasted, ensure it is a scalar" in str(exp_exc) and (has_constant_condition(prog) or has_literal_case_under_operator(prog)):
                    out.excluded[be] = "D16"  # same Polars broadcasting bug, triggered by a constant when-condition
                    continue
                if be == "pol" and type(exp_exc).__name__ == "PanicException" and "JoinType::Cross" in str(exp_exc):
                    out.excluded[be] = "D20"  # Polars panics for an equi-join that uses one key column twice
                    continue
                if be == "pol" and ENGINE_BUG_RE.search(str(exp_exc)) and (_has_horizontal(prog) or has_literal_left_comparison(prog)):
                    # D16: a Polars optimizer bug (reproduced without pydiverse.transform, correct with
                    # optimizations off): horizontal min/max with a literal over join-padded columns
                    out.excluded[be] = "D16"
                    continue
                if be != "pol" and cls in SQL_PERMITTED:
                    out.refused.setdefault(be, (h, cls))
                elif judged or cls in ("AssertionError", "KeyError", "AttributeError", "IndexError", "RecursionError", "TypeError"):
                    out.add("exc:" + be, be, h, f"export raised {cls}: {str(exp_exc)[:400]}", verb="export", exc=cls)
                continue
            out.frames[(be, h)] = df
            if be == "sqlite":
                for p in M.check_statements(stm, au):
                    out.add("sql", be, h, p, verb="export")
            if want_meta:
                for p in metadata_problem(tbl, df):
                    out.add("meta:" + be, be, h, p, verb="export")
            if want_types:
                try:
                    for p in static_type_problem(tbl, df, be, bool_as_int_ok=()):
                        out.add("type:" + be, be, h, p, verb="export")
                except Exception as e:
                    out.add("harness", be, h, f"type check crashed {type(e).__name__}: {e}")
            if h in ref_ok:
                prob, judged_as = compare.compare_with_ref(df, rf.env[h], mode, single_precision_inputs=f32_inputs)
                out.probes_judged += 1
                out.judged_as[judged_as] = out.judged_as.get(judged_as, 0) + 1
                if prob and be == "pol" and (contradiction_in_filter(prog, h, rf.env) or has_constant_condition(prog)) and _unoptimized_plan_agrees(rr.env[h], rf.env[h], mode, f32_inputs):
                    # D22: the LazyFrame that pydiverse.transform built is right - collected without the Polars optimizer it
                    # equals REF - and only the optimized execution differs: an engine bug, not the library's
                    out.excluded[be] = "D22"
                    prob = None
                if prob:
                    out.add("value:" + be, be, h, prob, verb="export", extra={"judged_as": judged_as})
            if reexport_every and n_exports % reexport_every == 0:
                try:
                    df2 = rr.export(h)
                    if h in ref_ok:
                        # cells REF calls undefined (e.g. cum_sum over tied sort keys, where the SQL
                        # backends break ties randomly on purpose) may differ between two exports
                        p, _ = compare.compare_with_ref(df2, rf.env[h], mode, single_precision_inputs=f32_inputs)
                        p0, _ = compare.compare_with_ref(df, rf.env[h], mode, single_precision_inputs=f32_inputs)
                        p = p if (p and not p0) else None
                    else:
                        p = None
                    if p:
                        out.add("reexport:" + be, be, h, "second export differs: " + p, verb="export")
                    if be != "pol":
                        q1, q2 = rr.build_query(h), rr.build_query(h)
                        if q1 != q2:
                            out.add("reexport:" + be, be, h, "build_query text differs between two calls", verb="build_query")
                except Exception as e:
                    out.add("reexport:" + be, be, h, f"second export raised {type(e).__name__}: {e}", verb="export")
        for v in M.SAN.drain():
            out.add("san:" + v["inv"], be, None, v["detail"], verb=v["verb"])
        if be == "pol":
            for p in drive.source_frame_problems(backend, {t["name"] for t in prog["tables"]}):
                out.add("san:I4", be, None, p, verb="export")
            out.source_frames_checked = len(prog["tables"])
        out.stats[be] = {"ref_excluded": ref_excluded}
    # ---- D24: engine bug exclusion keyed by program feature + message
    if has_shift_fill_on_sized_column(prog):
        kept = []
        for f in out.findings:
            if f.backend == "pol" and f.kind.startswith("exc:pol") and f.exc == "PanicException" and "cannot get ref" in f.detail:
                out.excluded["pol"] = "D24"
                continue
            kept.append(f)
        out.findings = kept
    # ---- D16: engine bug exclusion keyed by program feature
    kept = []
    for f in out.findings:
        if f.backend == "pol" and f.kind.startswith(("value:pol", "exc:pol")) and polars_horizontal_bug_applies(prog, f.step):
            out.excluded["pol"] = "D16"
            continue
        kept.append(f)
    out.findings = kept
    # ---- direct differential (only where REF saw no taint at all): cheap extra oracle
    if "pol" in backends and "sqlite" in backends and opts.get("diff", False):
        for h in probes:
            a, b = out.frames.get(("pol", h)), out.frames.get(("sqlite", h))
            if a is None or b is None or out.excluded:
                continue
            if any(f.kind.startswith("value:") and f.step == h for f in out.findings):
                continue
            p = compare.frames_equal(a, b, ordered=False)
            if p:
                out.add("diff", "pol|sqlite", h, p, verb="export")
    return out
