"""C03 — element-wise operators follow the documented null-aware semantics.

Workload: operator applications, not pipelines.  For every operator / overload, `mutate(y = op(...))` over
operand tables that are the full cross product of small value pools (every combination of null / zero /
negative / equal operands is a row), as column-column, column-literal, literal-column and nested under a
second operator.  Everything is executed on Polars and SQLite; every cell is compared with REF.
"""

from __future__ import annotations

import itertools
import json
import random

from .. import render, runner
from .. import monitors as M
from ..gen import cname, col, fn, lit
from . import pipeline

SHARDED = False

INTS = [-65, -7, -3, -1, 0, 1, 2, 3, 7, 65, None]
FLOATS = [-65.5, -2.5, -0.75, -0.0, 0.0, 0.5, 1.0, 2.25, 7.5, None]
BOOLS = [True, False, None]
STRS = ["", "a", "A", "ab", "a%", "_b", " x ", "b'c", "a\\b", "zz", None]
DATES = ["1999-12-31", "2020-02-29", "2021-07-15", "2024-01-01", None]
DTS = ["1999-12-31T23:59:59", "2020-02-29T13:45:10", "2021-07-15T08:05:00", "2024-01-01T00:00:00", None]
POOL = {"int": INTS, "float": FLOATS, "bool": BOOLS, "str": STRS, "date": DATES, "datetime": DTS}
DT = {"int": "Int64", "float": "Float64", "bool": "Bool", "str": "String", "date": "Date", "datetime": "Datetime"}
SMALL = {"int": [-7, -1, 0, 2, 65, None], "float": [-2.5, 0.0, 0.5, 7.5, None], "bool": BOOLS, "str": ["", "a", "ab", "zz", None],
         "date": DATES[1:], "datetime": DTS[1:]}


def lits_for(fam, rng, k=3):
    vals = [v for v in POOL[fam] if v is not None]
    pick = rng.sample(vals, min(k, len(vals)))
    ty = fam if fam in ("date", "datetime") else None
    return [lit(v, ty) for v in pick]


def table_for(fams, small=False):
    pools = [(SMALL if small or len(fams) > 2 else POOL)[f] for f in fams]
    rows = [list(r) for r in itertools.product(*pools)]
    names = ["a", "b", "c", "d"][: len(fams)]
    return {"handle": "T0", "name": "t", "schema": [[n, DT[f]] for n, f in zip(names, fams)], "rows": rows, "shape": "cross_product"}


BIN_ARITH = [
    ("add", ("int", "int")), ("add", ("float", "float")), ("add", ("int", "float")), ("add", ("str", "str")), ("add", ("bool", "bool")),
    ("sub", ("int", "int")), ("sub", ("float", "float")), ("sub", ("float", "int")),
    ("mul", ("int", "int")), ("mul", ("float", "float")), ("mul", ("int", "float")),
    ("truediv", ("int", "int")), ("truediv", ("float", "float")),
    ("floordiv", ("int", "int")), ("mod", ("int", "int")),
    ("pow", ("int", "int")), ("pow", ("float", "float")),
]  # fmt: skip
CMP = [(op, (f, f)) for op in ("eq", "ne", "lt", "le", "gt", "ge") for f in ("int", "float", "str", "bool", "date", "datetime")] + [
    (op, ("int", "float")) for op in ("eq", "lt", "ge")
]
BOOL2 = [(op, ("bool", "bool")) for op in ("and", "or", "xor")]
UNARY = (
    [(op, (f,)) for op in ("neg", "pos", "abs") for f in ("int", "float")]
    + [(op, ("float",)) for op in ("floor", "ceil", "exp", "log", "log10", "sqrt", "cbrt", "sin", "cos", "tan", "asin", "acos", "atan")]
    + [("invert", ("bool",))]
    + [(op, (f,)) for op in ("is_null", "is_not_null") for f in ("int", "float", "str", "bool", "date", "datetime")]
    + [(op, ("str",)) for op in ("str.len", "str.upper", "str.lower", "str.strip")]
    + [(op, (f,)) for op in ("dt.year", "dt.month", "dt.day", "dt.day_of_week", "dt.day_of_year") for f in ("date", "datetime")]
    + [(op, ("datetime",)) for op in ("dt.hour", "dt.minute", "dt.second")]
)
VARARG = (
    [(op, (f,) * n) for op in ("coalesce", "hmax", "hmin") for f in ("int", "float", "str", "bool", "date") for n in (2, 3)]
    + [("hsum", (f,) * n) for f in ("int", "float", "str") for n in (2, 3)]
    + [(op, ("bool",) * n) for op in ("hany", "hall") for n in (2, 3)]
    + [("fill_null", (f, f)) for f in ("int", "float", "str", "bool", "date")]
    + [("is_in", (f,) * n) for f in ("int", "float", "str", "bool") for n in (2, 3, 4)]
)


def cases(tier, seed):
    """Yields (label, program) for the whole catalogue."""
    rng = random.Random(f"C03:{seed}")
    forms_all = tier == "thorough"

    def prog(tbl, kw, label):
        return {"tables": [tbl], "steps": [{"in": "T0", "out": "T1", "verb": "mutate", "kw": kw}], "probes": ["T1"], "meta": {"label": label}}

    cols = lambda fams: [col("T0", n) for n in ["a", "b", "c", "d"][: len(fams)]]  # noqa: E731

    for op, fams in BIN_ARITH + CMP + BOOL2:
        tbl = table_for(fams)
        a, b = cols(fams)
        kw = [["cc", fn(op, a, b)]]
        for j, lv in enumerate(lits_for(fams[1], rng, 3 if forms_all else 2)):
            kw.append([f"cl{j}", fn(op, a, lv)])
        for j, lv in enumerate(lits_for(fams[0], rng, 3 if forms_all else 1)):
            kw.append([f"lc{j}", fn(op, lv, b)])
        # equal operands
        if fams[0] == fams[1]:
            kw.append(["same", fn(op, a, a)])
        # use C.<name> too
        kw.append(["viac", fn(op, cname("a"), b)])
        yield f"{op}{fams}", prog(tbl, kw, f"{op}{fams}")
        # nested under one further operator
        if forms_all or rng.random() < 0.5:
            inner = fn(op, a, b)
            rf = {"add": fams[0] if fams[0] in ("str",) else ("int" if fams == ("bool", "bool") else None)}.get(op)
            outer = []
            if op in ("eq", "ne", "lt", "le", "gt", "ge", "and", "or", "xor"):
                outer = [["n_inv", fn("invert", inner)], ["n_and", fn("and", inner, fn("is_not_null", a))], ["n_case", {"k": "case", "cases": [[inner, lit(1)]], "default": lit(0)}]]
            elif op in ("add", "sub", "mul") and fams[0] in ("int", "float") and fams[1] in ("int", "float"):
                outer = [["n_neg", fn("neg", inner)], ["n_cmp", fn("gt", inner, lit(0))], ["n_co", fn("coalesce", inner, lit(0) if "float" not in fams else lit(0.0))]]
            elif op in ("floordiv", "mod"):
                outer = [["n_mul", fn("add", fn("mul", fn("floordiv", a, b), b), fn("mod", a, b))], ["n_abs", fn("abs", inner)]]
            elif op in ("truediv", "pow"):
                outer = [["n_fl", fn("floor", inner)], ["n_isn", fn("is_null", inner)]]
            _ = rf
            if outer:
                yield f"nested:{op}{fams}", prog(tbl, outer, f"nested:{op}{fams}")

    for op, fams in UNARY:
        tbl = table_for(fams)
        (a,) = cols(fams)
        kw = [["c", fn(op, a)], ["viac", fn(op, cname("a"))]]
        if fams[0] in ("int", "float") and op in ("neg", "abs", "floor", "ceil", "sqrt", "exp"):
            kw.append(["n1", fn(op, fn("add", a, lit(1) if fams[0] == "int" else lit(0.5)))])
        yield f"{op}{fams}", prog(tbl, kw, f"{op}{fams}")

    for f in ("int", "float"):
        tbl = table_for((f,))
        (a,) = cols((f,))
        kw = [[f"r{d if d >= 0 else 'm' + str(-d)}", fn("round", a, lit(d))] for d in ((0, 1, 2, -1) if f == "float" else (0, 1, -1))]
        kw.append(["r_expr", fn("round", fn("mul", a, lit(0.3) if f == "float" else lit(3)), lit(1))])
        yield f"round({f})", prog(tbl, kw, f"round({f})")

    for op, fams in VARARG:
        tbl = table_for(fams, small=len(fams) > 2)
        cs = cols(fams)
        kw = [["cols", fn(op, *cs)]]
        lv = lits_for(fams[-1], rng, 2)
        kw.append(["lit_last", fn(op, *cs[:-1], lv[0])])
        if op == "is_in":
            kw.append(["lits", fn(op, cs[0], *lits_for(fams[0], rng, 2))])
            kw.append(["with_null", fn(op, cs[0], lits_for(fams[0], rng, 1)[0], lit(None))])
            kw.append(["equiv", fn("or", fn("eq", cs[0], cs[1]), fn("eq", cs[0], lv[0]))])
            kw.append(["equiv_in", fn(op, cs[0], cs[1], lv[0])])
            kw.append(["single", fn(op, cs[0], lv[0])])
            kw.append(["no_values", fn(op, cs[0])])  # an empty disjunction: false for every row
        if op in ("coalesce", "fill_null"):
            kw.append(["rev", fn(op, *reversed(cs))])
        if op in ("hmax", "hmin") and fams[0] in ("int", "float"):
            kw.append(["nested", fn(op, fn("neg", cs[0]), cs[1])])
        yield f"{op}{fams}", prog(tbl, kw, f"{op}{fams}")

    # type-variable operators with a computed (generic Int) first operand and a Float later operand: exactly one overload
    # (S = Float) applies, whichever side the float is on
    tbl = table_for(("int", "float"))
    a, b = cols(("int", "float"))
    ie = fn("add", a, lit(1))
    cnt = fn("str.len", fn("add", {"k": "cast", "e": a, "to": "String"}, lit("x")))
    kw = [["eq_if", fn("eq", ie, b)], ["ne_if", fn("ne", ie, b)], ["eq_fi", fn("eq", b, ie)], ["eq_il", fn("eq", ie, lit(2.0))],
          ["coalesce_if", fn("coalesce", ie, b)], ["coalesce_il", fn("coalesce", ie, lit(0.5))], ["coalesce_fi", fn("coalesce", b, ie)],
          ["fill_il", fn("fill_null", ie, lit(0.5))], ["fill_if", fn("fill_null", ie, b)], ["is_in_il", fn("is_in", ie, lit(2.0), lit(0.5))],
          ["is_in_if", fn("is_in", ie, b, lit(4.0))], ["len_eq_f", fn("eq", cnt, b)], ["len_fill", fn("fill_null", cnt, lit(1.5))],
          ["hmax_if", fn("hmax", ie, b)], ["case_if", {"k": "case", "cases": [[fn("gt", a, lit(0)), ie]], "default": b}]]
    yield "tyvar:int_expr_first,float_later", prog(tbl, kw, "tyvar mixed int/float")

    # clip: x.clip(lo, hi) == max(min(x, hi), lo) for non-null x
    for f, lo, hi in (("int", -3, 7), ("int", 0, 0), ("float", -0.75, 2.25), ("str", "a", "b"), ("date", "2020-02-29", "2021-07-15")):
        tbl = table_for((f,))
        (a,) = cols((f,))
        ty = f if f == "date" else None
        kw = [["clip", fn("clip", a, lit(lo, ty), lit(hi, ty))], ["equiv", fn("hmax", fn("hmin", a, lit(hi, ty)), lit(lo, ty))]]
        yield f"clip({f},{lo},{hi})", prog(tbl, kw, f"clip({f})")

    # string functions with literal patterns
    tbl = table_for(("str", "str"))
    a, b = cols(("str", "str"))
    pats = ["", "a", "%", "_", "a%", "b'c", "\\", " "] if forms_all else ["a", "%", "_", "b'c"]
    for op in ("str.starts_with", "str.ends_with", "str.contains"):
        kw = [[f"p{j}", fn(op, a, lit(p))] for j, p in enumerate(pats)]
        yield f"{op}(str,lit)", prog(tbl, kw, op)
    kw = [[f"r{j}", fn("str.replace_all", a, lit(p), lit(r))] for j, (p, r) in enumerate([("a", "X"), ("%", ""), ("b'c", "'"), (" ", "_"), ("zz", "z")])]
    yield "str.replace_all", prog(tbl, kw, "str.replace_all")
    kw = [[f"s{o}{n}", fn("str.slice", a, lit(o), lit(n))] for o in (0, 1, 2) for n in (0, 1, 3)]
    kw.append(["concat", fn("add", fn("str.slice", a, lit(0), lit(1)), fn("str.slice", b, lit(0), lit(1)))])
    yield "str.slice", prog(tbl, kw, "str.slice")

    # case expressions and map
    tbl = table_for(("int", "bool", "int"), small=True)
    a, b, c = cols(("int", "bool", "int"))
    kw = [
        ["first_true", {"k": "case", "cases": [[fn("gt", a, lit(0)), lit(1)], [fn("ge", a, lit(0)), lit(2)]], "default": lit(3)}],
        ["no_default", {"k": "case", "cases": [[b, a]], "default": None}],
        ["null_default", {"k": "case", "cases": [[b, a], [fn("invert", b), c]], "default": lit(None)}],
        ["null_cond", {"k": "case", "cases": [[fn("and", b, fn("is_null", a)), lit(10)], [b, lit(20)]], "default": c}],
        ["mixed_width", {"k": "case", "cases": [[b, fn("add", a, lit(0.5))]], "default": c}],
        ["int_then_float_default", {"k": "case", "cases": [[b, lit(1)]], "default": lit(2.5)}],
        ["int_col_then_float_default", {"k": "case", "cases": [[b, a]], "default": fn("truediv", c, lit(2))}],
        ["null_then_int_default", {"k": "case", "cases": [[fn("gt", a, lit(1)), lit(None)]], "default": a}],
        ["nested_case", {"k": "case", "cases": [[fn("lt", a, c), {"k": "case", "cases": [[b, lit("x")]], "default": lit("y")}]], "default": lit("z")}],
        ["map_int", {"k": "map", "e": a, "m": [[lit(0), lit(100)], [[lit(2), lit(65)], lit(200)]], "default": lit(-1)}],
        ["map_self", {"k": "map", "e": a, "m": [[lit(-7), lit(7)]], "default": None}],
    ]
    yield "case/map", prog(tbl, kw, "case/map")
    # case expressions whose branch values are all temporal literals (their static type is `const` when the condition is)
    tbl = table_for(("date", "bool", "datetime"), small=True)
    d, b, ts = cols(("date", "bool", "datetime"))
    D1, D2 = lit("1999-12-31", "date"), lit("2020-02-29", "date")
    T1, T2 = lit("1999-12-31T23:59:59", "datetime"), lit("2020-02-29T00:00:00", "datetime")
    kw = [
        ["const_cond_date", {"k": "case", "cases": [[lit(True), D1]], "default": lit(None)}],
        ["const_cond_date_cmp", fn("eq", d, {"k": "case", "cases": [[lit(True), D1]], "default": lit(None)})],
        ["const_false_dt", {"k": "case", "cases": [[lit(False), T1]], "default": T2}],
        ["const_cond_dt_cmp", fn("le", ts, {"k": "case", "cases": [[lit(False), T1]], "default": T2})],
        ["col_cond_dates", {"k": "case", "cases": [[b, D1]], "default": D2}],
        ["col_cond_dates_cmp", fn("eq", d, {"k": "case", "cases": [[b, D1]], "default": D2})],
        ["col_cond_dt_max", fn("hmax", ts, {"k": "case", "cases": [[b, T1]], "default": lit(None)})],
        ["coalesce_date_case", fn("coalesce", {"k": "case", "cases": [[fn("is_null", d), D2]], "default": lit(None)}, d)],
    ]
    yield "case/temporal_literals", prog(tbl, kw, "case/temporal literals")


def random_nested(tier, seed):
    """Random nestings (depth 2-3) of the whole element-wise catalogue over small cross-product tables."""
    from ..gen import ExprGen

    n = 150 if tier == "quick" else 2500
    for i in range(n):
        rng = random.Random(f"C03n:{seed}:{i}")
        eg = ExprGen(rng)
        fams = rng.choice([("int", "int", "float"), ("int", "float", "bool"), ("str", "str", "int"), ("int", "bool", "str"), ("float", "float", "int"),
                           ("date", "int", "bool"), ("int", "int", "int")])
        tbl = table_for(fams, small=True)
        scope = [(col("T0", nme), f) for nme, f in zip(["a", "b", "c"], fams)]
        kw = []
        for j in range(4):
            fam = rng.choice(["int", "float", "bool", "str"])
            kw.append([f"e{j}", eg.nonconst(fam, scope, rng.choice([2, 3]))])
        yield f"nested#{i}", {"tables": [tbl], "steps": [{"in": "T0", "out": "T1", "verb": "mutate", "kw": kw}], "probes": ["T1"], "meta": {"label": "random_nested"}}


def execute(run, prop, shard):
    cache = {}
    n = 0
    for label, prog in itertools.chain(cases(run.tier, run.seed), random_nested(run.tier, run.seed)):
        out = runner.run_program(prog, opts={"reexport_every": 0}, be_cache=cache)
        ops = tuple(sorted({nd.get("op", nd["k"]) for nd in _walk(prog["steps"]) if nd.get("k") in ("fn", "case", "cast", "map")}))
        run.case(shape=((label if not label.startswith("nested#") else "nested"), ops), nontrivial=True,
                 sample=(render.program(prog, max_rows=3) if n % 60 == 0 else None))
        n += 1
        run.counters["operator_applications"] += len(prog["steps"][0]["kw"])
        run.counters["cells_judged"] += len(prog["steps"][0]["kw"]) * len(prog["tables"][0]["rows"]) * len(out.frames)
        run.counters["probes_judged"] += out.probes_judged
        for be, rule in out.excluded.items():
            run.counters[f"excluded_by_domain:{be}:{rule.split(':')[0]}"] += 1
        for f in out.findings:
            if f.kind == "harness":
                run.counters["harness_problems"] += 1
                continue
            own = f.kind.startswith(("value:", "exc:", "accept:", "excls:"))

            def still(q, f0=f):
                oo = runner.run_program(q, opts={"reexport_every": 0})
                return any(g.kind == f0.kind and g.exc == f0.exc and g.backend == f0.backend for g in oo.findings)

            run.finding(f, prog, owned=own, reshrink=still, ctx={"ref": out.ref_env.get(f.backend), "real": out.real_env.get(f.backend if f.backend in out.real_env else "pol")})
    run.inconclusive_if(run.counters["probes_judged"] < n, "not every operator table reached the REF oracle on both backends")


def _walk(e):
    if isinstance(e, dict):
        if "k" in e:
            yield e
        for v in e.values():
            yield from _walk(v)
    elif isinstance(e, list):
        for v in e:
            yield from _walk(v)


def finalize(run, prop):
    # which element-wise operators of the catalogue were actually executed, per backend (M-COV)
    from pydiverse.transform._internal.ops import ops
    from pydiverse.transform._internal.ops.op import Ftype, Operator
    from pydiverse.transform._internal.ops.ops.markers import Marker

    allops = {o.name for o in vars(ops).values() if isinstance(o, Operator) and o.ftype == Ftype.ELEMENT_WISE and not isinstance(o, Marker)}
    seen = {}
    for (cls, name), c in M.INT.impl_seen.items():
        seen.setdefault(name, set()).add(cls)
    both = sorted(n for n in allops if {"PolarsImpl", "SqliteImpl"} <= seen.get(n, set()))
    missing = sorted(allops - set(both))
    run.extra["elementwise_operators_executed_on_both_backends"] = both
    run.extra["elementwise_operators_not_exercised"] = missing
    stated = {"__add__", "__sub__", "__mul__", "__truediv__", "__floordiv__", "__mod__", "__pow__", "__neg__", "__eq__", "__ne__", "__lt__",
              "__le__", "__gt__", "__ge__", "__and__", "__or__", "__xor__", "__invert__", "is_null", "is_not_null", "fill_null", "is_in",
              "coalesce", "max", "min", "sum", "any", "all", "clip", "abs", "round", "floor", "ceil"}
    lost = sorted(stated - set(both))
    run.inconclusive_if(bool(lost), f"operators named by the property were never executed on both backends: {lost}")
    return run.finish(
        "every element-wise operator/overload of the catalogue x argument forms (column-column, column-literal, literal-column, via C., "
        "equal operands, nested) over full cross products of value pools incl. null/zero/negative; each cell compared with REF on Polars "
        "and SQLite. distinct = distinct (operator, overload, forms) tables",
        pipeline.ASSUME_COMMON + ["value pools: ints +-65, dyadic floats, hostile strings, boundary dates; float results compared with 1e-9 tolerance"],
    )


def thorough_timeout(prop):
    return 1200


def replay(prop, path):
    d = json.load(open(path))
    prog = d["program"]
    print(render.program(prog))
    out = runner.run_program(prog, opts={"reexport_every": 0})
    bad = [f for f in out.findings if f.kind.startswith(("value:", "exc:"))]
    for f in out.findings:
        print(f.brief())
    if bad:
        print(f"VIOLATION property={prop} replay={path}")
        return 1
    return 0
