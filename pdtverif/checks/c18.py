"""C18 — Python literals and patterns reach SQL as data.

Strings over an alphabet holding every SQL / LIKE / regex metacharacter are used as literals in every
operator position that takes one, against column data drawn from the same alphabet.
Oracles: (a) SQLite result == Polars result == REF (Python string semantics); (b) I11 one read-only
SELECT per export; (c) structure: the token skeleton of the emitted statement (string literals -> ?)
is the same as for the benign literal "x", with the same number of string literals and an ESCAPE for
every LIKE — also evaluated on the PostgreSQL and SQL Server renderings, which cannot execute here.
"""

from __future__ import annotations

import itertools
import json
import random
import re

from .. import drive, render, runner
from .. import monitors as M
from ..gen import cname, col, fn, lit
from ..runner import Finding
from . import pipeline

SHARDED = False

ALPHABET = ["'", '"', "\\", "%", "_", "/", "[", "]", "^", "$", ".", "*", "(", ")", ";", "-", "--", "/*", "*/", "\n", "\t", " ", "é", "€", "😀", "a", "A"]
EXTRA = ["", "' OR '1'='1", "'; DROP TABLE t; --", "a%b_c", "%%", "__", "\\%", "\\\\", "''", "x' --", "/**/", "$1", ":name", "?", "%s", "%(a)s", "{0}", "NULL", "null", "[a-z]", "a|b", "^a", "a$", ".*", "(a", "a)"]


def literal_pool(tier, seed):
    rng = random.Random(f"C18:{seed}")
    pool = list(ALPHABET) + list(EXTRA)
    grams = ["".join(p) for p in itertools.product(ALPHABET, repeat=2)]
    if tier == "thorough":
        pool += grams
        pool += ["".join(rng.choice(ALPHABET) for _ in range(rng.randint(3, 6))) for _ in range(400)]
    else:
        pool += rng.sample(grams, 120)
        pool += ["".join(rng.choice(ALPHABET) for _ in range(rng.randint(3, 6))) for _ in range(60)]
    seen = set()
    out = []
    for s in pool:
        if s not in seen and "\x00" not in s:
            seen.add(s)
            out.append(s)
    return out


def column_data(L, rng):
    vals = [L, "a" + L + "b", L + L, L.upper() if L.isascii() else L, "x", "", None]
    vals += rng.sample(ALPHABET, 8)
    vals += ["".join(rng.choice(ALPHABET) for _ in range(rng.randint(2, 4))) for _ in range(5)]
    if L:
        vals += [L[:-1], L[1:], "é" + L]
    return vals


def program_for(L, rng, benign=False):
    data = column_data(L if not benign else "x", rng)
    rows = [[i, v, (v or "")[:1] or None] for i, v in enumerate(data)]
    tbl = {"handle": "T0", "name": "t", "schema": [["k", "Int64"], ["s", "String"], ["h", "String"]], "rows": rows, "shape": "hostile_strings"}
    s = col("T0", "s")
    kw = [
        ["eq", fn("eq", s, lit(L))],
        ["ne", fn("ne", cname("s"), lit(L))],
        ["lt", fn("lt", s, lit(L))],
        ["is_in", fn("is_in", s, lit(L), lit("x"))],
        ["cat_r", fn("add", s, lit(L))],
        ["cat_l", fn("add", lit(L), s)],
        ["starts", fn("str.starts_with", s, lit(L))],
        ["ends", fn("str.ends_with", s, lit(L))],
        ["contains", fn("str.contains", s, lit(L))],
        ["repl_pat", fn("str.replace_all", s, lit(L), lit("<>"))],
        ["repl_rep", fn("str.replace_all", s, lit("a"), lit(L))],
        ["case", {"k": "case", "cases": [[fn("eq", s, lit(L)), lit(L)], [fn("str.starts_with", s, lit(L)), lit("p:" + L)]], "default": lit("x")}],
        ["map", {"k": "map", "e": s, "m": [[lit(L), lit("hit")], [[lit("x"), lit("")], lit(L)]], "default": lit("miss")}],
        ["fill", fn("fill_null", s, lit(L))],
        ["coal", fn("coalesce", col("T0", "h"), lit(L))],
        ["const", lit(L)],
        ["hmax", fn("hmax", s, lit(L))],
        ["len", fn("str.len", fn("add", s, lit(L)))],
    ]
    steps = [
        {"in": "T0", "out": "T1", "verb": "mutate", "kw": kw},
        {"in": "T0", "out": "T2", "verb": "filter", "preds": [fn("or", fn("eq", s, lit(L)), fn("str.contains", s, lit(L)))]},
        {"in": "T0", "out": "T3", "verb": "filter", "preds": [fn("ne", s, lit(L))]},
    ]
    return {"tables": [tbl], "steps": steps, "probes": ["T1", "T2", "T3"], "meta": {"literal": L}}


# ---- quote-aware SQL lexer ---------------------------------------------------------------------


def skeleton(sql):
    """Token skeleton: string literals -> '?', numbers kept, whitespace collapsed. Returns (skeleton, n_strings)."""
    out = []
    i, n = 0, len(sql)
    nstr = 0
    while i < n:
        c = sql[i]
        if c == "'" or (c in "NnEe" and i + 1 < n and sql[i + 1] == "'" and (i == 0 or not (sql[i - 1].isalnum() or sql[i - 1] == "_"))):
            esc = False
            if c != "'":
                esc = c in "Ee"
                i += 1
            i += 1
            while i < n:
                if esc and sql[i] == "\\" and i + 1 < n:
                    i += 2
                    continue
                if sql[i] == "'":
                    if i + 1 < n and sql[i + 1] == "'":
                        i += 2
                        continue
                    break
                i += 1
            else:
                return None, nstr  # unterminated literal
            i += 1
            out.append("?")
            nstr += 1
            continue
        if c == '"':
            j = sql.find('"', i + 1)
            if j < 0:
                return None, nstr
            out.append(sql[i : j + 1])
            i = j + 1
            continue
        if c.isspace():
            if out and out[-1] != " ":
                out.append(" ")
            i += 1
            continue
        out.append(c)
        i += 1
    return "".join(out).strip(), nstr


def structure_problems(sql_h, sql_b, dialect):
    sk_h, n_h = skeleton(sql_h)
    sk_b, n_b = skeleton(sql_b)
    probs = []
    if sk_h is None:
        return ["unterminated string literal in the hostile statement"]
    if sk_h != sk_b:
        probs.append(f"token skeleton differs from the benign statement:\n   hostile: {sk_h[:300]}\n   benign : {sk_b[:300]}")
    if n_h != n_b:
        probs.append(f"{n_h} string literals vs {n_b} in the benign statement")
    like = len(re.findall(r"\bLIKE\b", sk_h, re.I))
    esc = len(re.findall(r"\bESCAPE\b", sk_h, re.I))
    if like != esc:
        probs.append(f"{like} LIKE but {esc} ESCAPE clauses")
    if ";" in sk_h.rstrip("; "):
        probs.append("top-level ';' in the statement")
    if sk_h.count("(") != sk_h.count(")"):
        probs.append("unbalanced parentheses outside literals")
    return probs


def build_queries(prog, kind):
    be = drive.Backend(kind)
    rr = drive.RealRun(prog, be)
    with M.SQL.setup():
        rr.setup_tables()
    out = {}
    for st in prog["steps"]:
        try:
            rr.env[st["out"]] = rr.apply(st)
            out[st["out"]] = rr.build_query(st["out"])
        except Exception as e:  # noqa: BLE001
            out[st["out"]] = e
    return out


def numeric_literal_programs():
    """Negative numbers, booleans, null and dates as literals (also under negation: `--7` would be a comment)."""
    rows = [[i, v, w, b, d] for i, (v, w, b, d) in enumerate([(-7, 0.5, True, "2020-02-29"), (0, -2.5, False, "1999-12-31"), (3, None, None, None), (None, 7.5, True, "2024-01-01")])]
    tbl = {"handle": "T0", "name": "t", "schema": [["k", "Int64"], ["x", "Int64"], ["f", "Float64"], ["b", "Bool"], ["d", "Date"]], "rows": rows, "shape": "literal_types"}
    x, f, b, d = col("T0", "x"), col("T0", "f"), col("T0", "b"), col("T0", "d")
    for n in (-7, -1, 0, 2):
        for fl in (-0.5, -2.25, 1.5):
            kw = [
                ["neg_lit", fn("neg", lit(n) | {"wrap": True})],
                ["neg_neg", fn("neg", fn("neg", x))],
                ["sub_neg", fn("sub", x, lit(n))],
                ["lit_sub", fn("sub", lit(n), x)],
                ["neg_of_sub", fn("neg", fn("sub", lit(n), x))],
                ["mul_neg", fn("mul", x, lit(n))],
                ["fneg", fn("neg", fn("mul", f, lit(fl)))],
                ["fsub", fn("sub", lit(fl), fn("neg", f))],
                ["eq", fn("eq", x, lit(n))],
                ["is_in", fn("is_in", x, lit(n), lit(-3))],
                ["case", {"k": "case", "cases": [[fn("lt", x, lit(n)), lit(n)], [b, fn("neg", lit(n) | {"wrap": True})]], "default": lit(None)}],
                ["fill", fn("fill_null", x, lit(n))],
                ["bool_lit", fn("and", b, lit(True))],
                ["bool_or_false", fn("or", fn("eq", b, lit(False)), lit(False))],
                ["date_cmp", fn("ge", d, lit("2020-02-29", "date"))],
                ["date_fill", fn("fill_null", d, lit("1999-12-31", "date"))],
                ["const_neg", lit(n)],
                ["const_f", lit(fl)],
                ["clip", fn("clip", x, lit(min(n, 0) - 1), lit(3))],
            ]
            c_, cf = {"k": "c", "n": "cn"}, {"k": "c", "n": "cf"}
            steps = [{"in": "T0", "out": "T1", "verb": "mutate", "kw": kw},
                     {"in": "T0", "out": "T2", "verb": "filter", "preds": [fn("gt", fn("neg", x), lit(n))]},
                     # the same literals as constant COLUMNS of an earlier verb (they are inlined into later expressions)
                     {"in": "T0", "out": "T3", "verb": "mutate", "kw": [["cn", lit(n)], ["cf", lit(fl)], ["cs", lit("a'b")], ["cb", lit(True)]]},
                     {"in": "T3", "out": "T4", "verb": "mutate", "kw": [["neg_c", fn("neg", c_)], ["neg_neg_c", fn("neg", fn("neg", c_))], ["x_minus_c", fn("sub", x, c_)],
                                                                         ["c_minus_x", fn("sub", c_, x)], ["neg_cf", fn("neg", cf)], ["x_times_negc", fn("mul", x, fn("neg", c_))],
                                                                         ["cs_cat", fn("add", {"k": "c", "n": "cs"}, lit("--x"))], ["not_cb", fn("invert", {"k": "c", "n": "cb"})]]},
                     {"in": "T3", "out": "T5", "verb": "filter", "preds": [fn("gt", x, fn("neg", c_))]}]
            yield {"tables": [tbl], "steps": steps, "probes": ["T1", "T2", "T4", "T5"], "meta": {"literal": [n, fl]}}


def comment_problems(sql):
    sk, _ = skeleton(sql)
    if sk is None:
        return ["unterminated literal"]
    probs = []
    if "--" in sk:
        probs.append("`--` outside string literals (SQL comment)")
    if "/*" in sk:
        probs.append("`/*` outside string literals (SQL comment)")
    return probs


def execute(run, prop, shard):
    rng = random.Random(f"C18:{run.seed}:{run.tier}")
    cache0 = {}
    for prog in numeric_literal_programs():
        out = runner.run_program(prog, opts={"reexport_every": 0}, be_cache=cache0)
        run.case(shape=("numeric_literals", tuple(prog["meta"]["literal"])), nontrivial=True,
                 sample=({"numeric_literals": prog["meta"]["literal"], "positions": [k for k, _ in prog["steps"][0]["kw"]]} if run.evaluations == 0 else None))
        run.counters["probes_judged"] += out.probes_judged
        run.counters["numeric_literal_positions"] += len(prog["steps"][0]["kw"]) + 1
        for f in out.findings:
            if f.kind != "harness":
                def still(q, f0=f):
                    oo = runner.run_program(q, opts={"reexport_every": 0})
                    return any(g.kind == f0.kind and g.exc == f0.exc and g.backend == f0.backend for g in oo.findings)

                run.finding(f, prog, owned=f.kind.startswith(("value:", "exc:", "sql")), reshrink=still)
        for kind in ("sqlite", "postgres", "mssql"):
            for h, q in build_queries(prog, kind).items():
                if isinstance(q, Exception):
                    run.finding(Finding("structure", kind, h, f"numeric literals {prog['meta']['literal']}: build_query raised {type(q).__name__}: {str(q)[:200]}",
                                        exc=type(q).__name__, extra={"feature": None}), None)
                    continue
                run.counters[f"statements_lexed:{kind}"] += 1
                for p in comment_problems(q) + structure_problems(q, q, kind)[2:]:
                    run.finding(Finding("structure", kind, h, f"numeric literals {prog['meta']['literal']} on {kind}: {p}: {q[:160]}", extra={"feature": None}), None)
    cache = {}
    lits = literal_pool(run.tier, run.seed)
    benign = {}
    for kind in ("sqlite", "postgres", "mssql"):
        benign[kind] = build_queries(program_for("x", random.Random(1), benign=True), kind)
    n = 0
    for L in lits:
        prog = program_for(L, rng)
        out = runner.run_program(prog, opts={"reexport_every": 0}, be_cache=cache)
        n += 1
        run.case(shape=("literal", L), nontrivial=len(L) > 0, sample=({"literal": L, "positions": [k for k, _ in prog["steps"][0]["kw"]] + ["filter"]} if n % 90 == 1 else None))
        run.counters["literal_positions"] += len(prog["steps"][0]["kw"]) + 3
        run.counters["probes_judged"] += out.probes_judged
        for be, rule in out.excluded.items():
            run.counters[f"excluded_by_domain:{be}:{rule.split(':')[0]}"] += 1
        for f in out.findings:
            if f.kind == "harness":
                run.counters["harness_problems"] += 1
                continue
            own = f.kind.startswith(("value:", "exc:", "sql"))

            def still(q, f0=f):
                oo = runner.run_program(q, opts={"reexport_every": 0})
                return any(g.kind == f0.kind and g.exc == f0.exc and g.backend == f0.backend for g in oo.findings)

            run.finding(f, prog, owned=own, reshrink=still)
        # (c) structure on every dialect
        for kind in ("sqlite", "postgres", "mssql"):
            qs = build_queries(prog, kind)
            for h, q in qs.items():
                b = benign[kind][h]
                if isinstance(q, Exception) or isinstance(b, Exception):
                    if isinstance(q, Exception) and not isinstance(b, Exception):
                        run.finding(Finding("structure", kind, h, f"literal {L!r}: build_query raised {type(q).__name__}: {str(q)[:200]} (benign literal compiles)",
                                            exc=type(q).__name__, extra={"feature": None}), None)
                    continue
                run.counters[f"statements_lexed:{kind}"] += 1
                for p in structure_problems(q, b, kind):
                    run.finding(Finding("structure", kind, h, f"literal {L!r} on {kind}: {p}", extra={"feature": None}), None)
    run.inconclusive_if(run.counters["probes_judged"] < n, "too few exports reached the REF oracle")
    run.inconclusive_if(M.SQL.counts.get("auth_events", 0) == 0, "sqlite3 authorizer never fired")


def finalize(run, prop):
    return run.finish(
        "every string of the pool (27-symbol alphabet of SQL / LIKE / regex metacharacters, injection idioms, sampled or all 2-grams, random "
        "3-6-grams) used as literal in 21 positions (==, !=, <, is_in, + both sides, starts_with, ends_with, contains, replace_all pattern and "
        "replacement, case conditions and values, map keys and values, fill_null, coalesce, constant column, horizontal max, two filters) against "
        "column data built from the same alphabet; SQLite vs Polars vs REF per cell, I11 per export, token-skeleton equality with the benign "
        "literal on SQLite / PostgreSQL / SQL Server. distinct = distinct literals",
        pipeline.ASSUME_COMMON + ["NUL is excluded (sqlite3 refuses it in statement text)", "PostgreSQL / SQL Server statements are only lexed, not executed"],
    )


def thorough_timeout(prop):
    return 1500


def replay(prop, path):
    d = json.load(open(path))
    if d.get("program"):
        print(render.program(d["program"]))
        out = runner.run_program(d["program"], opts={"reexport_every": 0})
        bad = [f for f in out.findings if f.kind.startswith(("value:", "exc:", "sql"))]
        for f in out.findings:
            print(f.brief())
        if bad:
            print(f"VIOLATION property={prop} replay={path}")
            return 1
        return 0
    print(d)
    return 1
