"""Checks that are decided by running generated pipelines on the real backends under the monitors and
judging what was observed against REF (C01, C02, C04, C05, C06, C07, C10, C11, C12).  They share the
case loop and differ in workload family and in the finding kinds they own."""

from __future__ import annotations

import random

from .. import gen, runner
from .. import monitors as M

ASSUME_COMMON = [
    "SQLite 3.40 (stdlib) is the only executing SQL engine; PostgreSQL / SQL Server / DuckDB / DB2 are not executed",
    "REF (pdtverif/ref.py) is trusted as the documented semantics after validation against both backends and the docstring tables",
    "programs are bounded (<= 10 verbs, expression depth <= 3, <= 220 rows); held means held on the executions produced",
    "values outside the defined domain (DESIGN section 4: division by zero, overflow, rounding ties, unmarked null order, non-total order under slice_head) are not judged",
]

SPECS = {
    "C01": dict(
        fams=[("general", 5), ("order", 1.5), ("summarize", 1.5), ("join", 1.5), ("union", 1), ("rowverbs", 1)],
        owns=("value:", "exc:sqlite", "diff", "names:", "exc:pol"),
        quick=900,
        thorough=2500,
        rule="seeded random compositions of all verbs (general family) plus the property-centred families; each program runs on "
        "Polars and SQLite under the monitors; every probe export is compared with REF in the backend's mode "
        "(sequence when REF says the order in force is total, multiset otherwise); a SQL refusal must be SubqueryError or "
        "NotSupportedError. distinct = distinct (verb sequence, operator multiset, data-shape class); non-trivial = >= 2 verbs or >= 1 operator",
    ),
    "C02": dict(
        fams=[("rowverbs", 8), ("collide", 1)],
        owns=("value:", "exc:", "accept:", "excls:"),
        quick=1200,
        thorough=4000,
        rule="(one program in nine: a column overwritten several times whose older versions are used through kept references behind a SQL subquery) "
        "row-level verbs only (select/drop/rename/mutate/filter/arrange/slice_head/group_by/ungroup/alias) with element-wise "
        "expressions, overwrites, hidden columns, references through old table handles; every intermediate table is exported and compared "
        "with REF's row-by-row evaluation on Polars (sequence) and SQLite",
    ),
    "C04": dict(
        fams=[("summarize", 1)],
        owns=("value:", "exc:", "accept:", "excls:"),
        quick=1200,
        thorough=4000,
        rule="[prefix] >> group_by(0-3 keys incl. computed / bool / string / nullable) >> summarize(aggregates with/without filter=, "
        "arithmetic over aggregates, group columns) >> [suffix incl. filter -> HAVING]; result compared with REF (cardinality, column "
        "order, every aggregate cell)",
    ),
    "C05": dict(
        fams=[("order", 1)],
        owns=("value:", "exc:"),
        quick=1000,
        thorough=3500,
        rule="arrange chains with all marker combinations over nullable / duplicated keys, row-preserving verbs, slice_head, and window "
        "functions (row_number/rank/dense_rank/shift/cum_sum/aggregates) with partition_by= or group_by and arrange=; Polars judged on "
        "the exact sequence, SQLite on the sequence when the ORDER BY in force is total",
    ),
    "C06": dict(
        fams=[("join", 1)],
        owns=("value:", "names:", "exc:", "san:I1"),
        quick=1000,
        thorough=3500,
        rule="inner/left/full/cross joins with string / equality / conjunction / inequality / expression predicates, duplicate and null "
        "keys, empty sides, prepared inputs, name-collision configurations from a 7-name alphabet, self joins; rows compared with REF's "
        "nested-loop join, names with the documented suffix rule, every input column probed through its original reference",
    ),
    "C07": dict(
        fams=[("union", 5), ("subq_edges", 1)],
        owns=("value:", "exc:", "accept:", "excls:"),
        quick=1000,
        thorough=3500,
        rule="unions of 2-3 tables with permuted column order, hidden columns, duplicate rows, nullable columns, empty sides, chains, "
        "verbs before and after, operands that are subqueries or unions themselves; rows compared with REF's bag / set union by column name",
    ),
    "C09": dict(
        fams=[("refs", 4), ("general", 1), ("join", 1), ("reroot", 1)],
        owns=("value:", "excls:", "accept:", "exc:", "refname:"),
        quick=900,
        thorough=3000,
        rule="histories of rename (incl. swaps, renaming onto a hidden column's name) / select / drop / overwriting mutate / arrange / filter / "
        "join (suffixing) / alias(keep_col_refs=True) / collect between taking a reference and using it; at the end every reference through "
        "every earlier table handle and C.<name> are used side by side in one mutate and compared with REF's identity model; `derived[ref].name` is "
        "compared with REF's current name of that column id; references that are not derivable any more must raise ColumnNotFoundError",
    ),
    "C16": dict(
        fams=[("reroot", 1)],
        owns=("value:", "excls:", "accept:", "exc:", "san:C16", "type:", "meta:"),
        quick=800,
        thorough=3000,
        rule="random prefix (hidden columns, renames, grouping, overwrites) >> one of alias() / alias(name) / alias(keep_col_refs=True) / collect() / "
        "collect(keep_col_refs=False) / transfer_col_references / alias twice >> uses of old and new references, self joins with the origin, "
        "summarize after a grouped collect; exports before and after are compared with REF (identical data, names, order), old references are "
        "accepted / rejected as documented, and the uuid maps returned by every _clone are checked to be injective (sys.monitoring)",
    ),
    "C10": dict(
        fams=[("general", 3), ("order", 1), ("summarize", 1), ("join", 1), ("union", 1)],
        owns=("san:I4", "san:I5", "san:I6", "san:I7", "san:I10", "san:I14", "reexport:", "sql", "print:"),
        quick=700,
        thorough=2500,
        reexport_every=1,
        rule="SAN invariants I4 (input table fingerprint unchanged), I5 (argument expressions unchanged), I7, I10 (backend receives a clone), "
        "I11 (one read-only SELECT per export), I13 (every export repeated: same frame, same SQL text) on every verb application / export; "
        "the Polars source frames handed to Table(...) are compared with a snapshot after every program "
        "of the generated pipelines",
    ),
    "C11": dict(
        fams=[("general", 3), ("rowverbs", 2), ("summarize", 1), ("join", 1.5), ("union", 1)],
        owns=("san:I1", "san:I2", "san:I3", "san:I12", "meta:"),
        quick=900,
        thorough=3000,
        rule="I1-I3 on every verb application (name<->uuid maps inverse and in order; visible/partition uuids in scope; incremental cache == "
        "Cache.from_ast), I8 on every export (columns(), iteration, len, in, dir vs frame), I12 (SqlImpl.export's positional pairing)",
    ),
    "C12": dict(
        fams=[("types", 4), ("general", 2), ("summarize", 1), ("join", 1), ("union", 1), ("order", 1)],
        owns=("type:",),
        quick=900,
        thorough=3000,
        rule="I9 on every export: static dtype of every visible column is a supertype of (concrete: equal to) the exported dtype on Polars, "
        "same numeric family on SQLite; only all-null columns may be null-typed. The `types` family draws its source columns from Int8/Int16/"
        "Int32/Int64/Float32/Float64/Bool/String/Date/Datetime and creates columns through mutate, summarize, join padding, union and collect",
    ),
}


def pick_family(rng, fams):
    names, ws = zip(*fams)
    return rng.choices(names, ws)[0]


def case_seed(seed, tier, shard, i):
    return (seed * 1_000_003 + (shard or 0) * 7919 + i * 101 + (17 if tier == "thorough" else 0)) % (2**31)


# eval_aligned workload (pdtverif/aligned.py): which verbs each property looks at, and how many pairs relative to n
ALIGNED = {
    "C02": ({"mutate_e": 3, "filter": 2, "arrange": 1.5}, 0.1),
    "C04": ({"summarize": 2.5, "mutate_a": 2}, 0.1),
    "C05": ({"mutate_w": 2, "arrange": 1}, 0.1),
    "C14": (None, 0.3),
}
ALIGNED_RULE = (
    " Plus the eval_aligned workload: the same verb written once over one table and once with some of its columns living in a second "
    "table / in polars or pandas Series and passed as eval_aligned(...) (foreign-only and mixed element-wise subtrees, with_= forms); the "
    "plain form is judged against REF, the eval_aligned form must export the same frame without an error."
)


def owned_by(spec, f):
    return any(f.kind.startswith(o) for o in spec["owns"])


def run(run_, prop, n, shard_index=0):
    spec = SPECS[prop]
    rng = random.Random(f"{prop}:{run_.seed}:{run_.tier}:{shard_index}")
    cache = {}
    opts = {"reexport_every": spec.get("reexport_every", 8)}
    judged = 0
    for i in range(n):
        fam = pick_family(rng, spec["fams"])
        s = case_seed(run_.seed, run_.tier, shard_index, i)
        try:
            prog = getattr(gen, "gen_" + fam)(s)
        except Exception as e:  # generator bug: never a verdict about the repository
            run_.counters["generator_failures"] += 1
            run_.extra.setdefault("generator_failure_examples", [])
            if len(run_.extra["generator_failure_examples"]) < 3:
                run_.extra["generator_failure_examples"].append(f"{fam}:{s}:{type(e).__name__}:{e}")
            continue
        prog["meta"]["family"] = fam
        out = runner.run_program(prog, opts=opts, be_cache=cache)
        run_.case(prog)
        run_.counters["programs:" + fam] += 1
        run_.counters["steps"] += len(prog["steps"])
        run_.counters["probes_judged"] += out.probes_judged
        run_.counters["source_frames_checked_unchanged"] += out.source_frames_checked
        judged += out.probes_judged
        for k, v in out.judged_as.items():
            run_.counters["judged_as:" + k] += v
        for be, rule in out.excluded.items():
            run_.counters[f"excluded_by_domain:{be}:{rule.split(':')[0]}"] += 1
        for be, (_st, cls) in out.refused.items():
            run_.counters[f"refused:{be}:{cls}"] += 1
        for be, (_st, cls) in out.rejected.items():
            run_.counters[f"documented_rejection:{be}:{cls}"] += 1
        if not out.excluded:
            run_.counters["in_domain_programs"] += 1
        for t in prog["tables"]:
            run_.counters["table_shape:" + str(t.get("shape"))] += 1
        if prop == "C09":
            name_probe(run_, prog, out)
        if prop in ("C10", "C11") and i % 3 == 0:
            print_probe(run_, prog, out, prop)
        for f in out.findings:
            if f.kind == "harness":
                run_.counters["harness_problems"] += 1
                continue
            own = owned_by(spec, f)

            def still(q, f0=f):
                oo = runner.run_program(q, opts=opts)
                return any(g.kind == f0.kind and g.exc == f0.exc and g.backend == f0.backend for g in oo.findings)

            mode_env = out.ref_env.get(f.backend if f.backend in out.ref_env else "pol")
            run_.finding(f, prog, owned=own, reshrink=still, ctx={"ref": mode_env, "real": out.real_env.get(f.backend if f.backend in out.real_env else "pol")})
    if prop in ALIGNED:
        from .. import aligned

        verbs, frac = ALIGNED[prop]
        aligned.run(run_, prop, max(40, int(n * frac)), shard_index, verbs, spec)
    run_.inconclusive_if(judged < max(10, n // 4), f"only {judged} probe exports reached the REF oracle")
    return run_


def print_probe(run_, prog, out, prop):
    """C10: printing / repr / show_query / repr(expr) change no pre-existing object (fingerprints before and after).
    C11: the shape line of print(tbl) and of the HTML repr agrees with len(tbl) and with the exported frame."""
    import contextlib
    import io
    import re

    import pydiverse.transform as pdt

    from .. import monitors as M
    from ..runner import Finding

    probes = prog.get("probes") or []
    grouped_handles = [st["out"] for st in prog["steps"] if st["verb"] == "group_by"]
    for be, renv in out.real_env.items():
        targets = [(h, out.frames.get((be, h))) for h in probes[-2:]]
        if prop == "C11" and be == "pol":
            # grouped tables are tables too: their printed form must show the same columns and row count
            for h in grouped_handles[-2:]:
                tbl = renv.get(h)
                if tbl is None or not tbl._cache.partition_by:
                    continue
                try:
                    targets.append((h, tbl >> pdt.ungroup() >> pdt.export(pdt.Polars())))
                    run_.counters["print_probes_grouped"] += 1
                except (KeyboardInterrupt, SystemExit):
                    raise
                except BaseException:  # noqa: BLE001  (engine panics derive from BaseException)
                    continue
        M.SAN.drain()
        for h, df in targets:
            tbl = renv.get(h)
            if tbl is None or df is None:
                continue
            pre = M.fingerprint_table(tbl)
            buf = io.StringIO()
            try:
                with contextlib.redirect_stdout(buf):
                    text = repr(tbl)
                    html = tbl._repr_html_()
                    tbl >> pdt.show_query()
                    tbl >> pdt.show()
                    tbl >> pdt.ast_repr()
                    tbl >> pdt.ast_repr(2, 1)
                    cols = list(tbl)
                    if cols and not tbl._cache.partition_by:
                        repr(cols[0])
                    str(tbl)
            except (KeyboardInterrupt, SystemExit):
                raise
            except BaseException as e:  # noqa: BLE001
                out.findings.append(Finding("print:" + be, be, h, f"printing the table raised {type(e).__name__}: {str(e)[:200]}", verb="repr", exc=type(e).__name__))
                continue
            run_.counters["print_probes"] += 1
            post = M.fingerprint_table(tbl)
            d = M.diff_nodes(pre["nodes"], post["nodes"])
            if d or pre["cache"] != post["cache"] or pre["ast_root"] != post["ast_root"]:
                out.findings.append(Finding("san:I4", be, h, f"repr / _repr_html_ / show_query / show / ast_repr / repr(col) changed the table: {M._short(d)}", verb="repr"))
            if prop == "C11" and be == "pol":
                m = re.search(r"shape: \((\d+), (\d+)\)", text)
                mh = re.search(r"shape: \((\d+), (\d+)\)", html)
                for name, mm, body in (("print", m, text), ("html", mh, html)):
                    if mm is None and "export failed" in body and _engine_bug_in_printed_export(prog, body):
                        # the head/tail export that printing runs hit a Polars engine bug (D16): the printed form
                        # reports the failure as designed, there is no frame to compare with
                        run_.counters["print_probes_excluded_D16"] += 1
                        continue
                    if mm is None:
                        # a Polars-backed table prints its rows: no shape line means the printed form carries no columns at all
                        out.findings.append(Finding("meta:" + be, be, h, f"{name} form of the table has no shape line: {body[:160]!r}", verb="repr"))
                        continue
                    run_.counters["shape_lines_checked"] += 1
                    if (int(mm.group(1)), int(mm.group(2))) != (df.height, df.width) or int(mm.group(2)) != len(tbl):
                        out.findings.append(Finding("meta:" + be, be, h, f"{name} shape line {mm.group(0)} vs frame ({df.height}, {df.width}), len(tbl)={len(tbl)}", verb="repr"))
                # header row of the printed frame / of the HTML table = exported names in order (when nothing is elided)
                hdr = re.findall(r"<th>(.*?)</th>", html)
                if hdr and "&hellip;" not in html and "…" not in "".join(hdr):
                    import html as _html

                    run_.counters["html_headers_checked"] += 1
                    if [_html.unescape(x) for x in hdr] != list(df.columns):
                        out.findings.append(Finding("meta:" + be, be, h, f"HTML header {hdr} != exported names {list(df.columns)}", verb="repr"))
    for v in M.SAN.drain():
        out.findings.append(Finding("san:" + v["inv"], "pol", None, v["detail"], verb=v["verb"]))


def _engine_bug_in_printed_export(prog, body):
    """D16 for the export that printing performs on the first / last rows: the row slice can make a condition
    column uniform that is not uniform in the whole table, so the full export may be fine while this one fails."""
    import html as _html

    from .. import runner as R

    msg = _html.unescape(body)
    return bool(R.ENGINE_BUG_RE.search(msg) or "to be broadcasted, ensure it is a scalar" in msg) and (
        R._has_horizontal(prog) or R.has_literal_case_under_operator(prog) or R.has_constant_condition(prog) or R.has_literal_left_comparison(prog)
    )


def name_probe(run_, prog, out):
    """C09: `derived[ref].name` reports the current name of the referenced column (or raises
    ColumnNotFoundError when the column is not visible in `derived`)."""
    from ..runner import Finding

    h = prog.get("meta", {}).get("name_probe")
    if h is None:
        return
    for be, renv in out.real_env.items():
        if h not in renv or h not in out.ref_env.get(be, {}) or h not in out.ref_ok.get(be, ()):
            continue
        tbl, rt = renv[h], out.ref_env[be][h]
        idn = rt.id_to_name()
        for hh, rtab in out.ref_env[be].items():
            if hh not in renv or hh not in out.ref_ok.get(be, ()):
                continue
            for n, cid in rtab.vis[:6]:
                try:
                    ref_col = renv[hh][n]
                except Exception:
                    continue
                run_.counters["derived_name_probes"] += 1
                try:
                    got = tbl[ref_col].name
                except Exception as e:  # noqa: BLE001
                    got = type(e).__name__
                exp = idn.get(cid, "ColumnNotFoundError")
                if got != exp:
                    out.findings.append(Finding("refname:" + be, be, h, f"{h}[{hh}.{n}].name = {got!r}, REF says {exp!r}", verb="getitem"))


def finalize(run_, prop):
    spec = SPECS[prop]
    # a deciding monitor that never ran makes the run inconclusive, never "held"
    need = {
        "C10": ["I4", "I5", "I10"],
        "C11": ["I1", "I3", "I12"],
    }.get(prop, [])
    for inv in need:
        run_.inconclusive_if(run_.shard is None and M.SAN.counts.get(inv, 0) == 0 and run_.tier == "quick", f"monitor {inv} evaluated 0 times")
    if prop == "C10":
        run_.inconclusive_if(run_.tier == "quick" and M.SQL.counts.get("statements", 0) == 0, "no SQL statement observed")
    return run_.finish(spec["rule"] + (ALIGNED_RULE if prop in ALIGNED else ""), ASSUME_COMMON)
