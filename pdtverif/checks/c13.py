"""C13 — overload resolution is total, deterministic and uniform.

The sweep calls the *real* `Operator.return_type` (under icontract postconditions), `ColFn(op, *typed
columns)` and `lca_type` for every operator x every argument-type tuple over the type universe
(complete for arity <= 2, seeded samples beyond), records the outcome table, and checks it offline:
no internal error, identical across PYTHONHASHSEED values and signature insertion orders, uniform over
sized members of a type family, const accepted where plain is, const parameters reject plain arguments.
"""

from __future__ import annotations

import hashlib
import itertools
import json
import os
import random
import subprocess
import sys
import tempfile
import shutil

from .. import harness
from ..runner import Finding

SHARDED = False  # own subprocess scheme (one worker per hash seed)


def universe():
    import pydiverse.transform as pdt
    from pydiverse.common import Decimal, Duration, Enum, List, NullType, Time
    from pydiverse.transform._internal.tree.types import Const

    base = [
        pdt.Int8(), pdt.Int16(), pdt.Int32(), pdt.Int64(), pdt.UInt8(), pdt.UInt16(), pdt.UInt32(), pdt.UInt64(),
        pdt.Int(), pdt.Float32(), pdt.Float64(), pdt.Float(), Decimal(), Decimal(10, 2), Decimal(5, 2), Decimal(7, 3),
        pdt.String(), pdt.String(5), Enum("a", "b"), pdt.Bool(), pdt.Date(), pdt.Datetime(), Time(), Duration(), NullType(),
        List(pdt.Int64()), List(pdt.String()),
    ]  # fmt: skip
    return base, [Const(t) for t in base]


def family(t):
    from pydiverse.transform._internal.tree import types

    t = types.without_const(t)
    n = type(t).__name__
    if t.is_int():
        return "int"
    if t.is_float() or n == "Decimal":
        return "float"
    if n in ("String", "Enum"):
        return "str"
    return n


def all_operators():
    from pydiverse.transform._internal.ops import ops
    from pydiverse.transform._internal.ops.op import Operator

    seen = {}
    for name, o in vars(ops).items():
        if isinstance(o, Operator):
            seen[id(o)] = (name, o)
    return sorted(seen.values(), key=lambda x: x[0])


def arities(op):
    out = set()
    for s in op.signatures:
        n = len(s.types)
        out.add(n)
        if s.is_vararg:
            out.update(range(n, 5))
    return sorted(out)


class Contracts:
    """icontract postconditions on the real resolution functions (M-RES). Evaluation counters make
    bypassed contracts visible (count 0 => inconclusive)."""

    evaluations = {"return_type": 0, "best_signature_match": 0, "lca_type": 0}
    broken = []

    @classmethod
    def install(cls):
        try:
            import icontract
        except Exception:
            return False
        from pydiverse.common import Dtype
        from pydiverse.transform._internal.ops import op as opmod
        from pydiverse.transform._internal.ops import signature
        from pydiverse.transform._internal.tree import types

        class PostBroken(Exception):
            pass

        def rt_is_dtype_or_none(result):
            cls.evaluations["return_type"] += 1
            ok = result is None or isinstance(result, Dtype)
            if not ok:
                cls.broken.append(f"return_type returned {type(result).__name__}")
            return True

        opmod.Operator.return_type = icontract.ensure(rt_is_dtype_or_none, error=PostBroken)(opmod.Operator.return_type)

        def bsm_unique(sig, candidates, result):
            cls.evaluations["best_signature_match"] += 1
            d = [signature.sig_distance(sig, c) for c in candidates]
            best = min(d)
            if d.count(best) != 1 or d[result] != best:
                cls.broken.append(f"best_signature_match: {d.count(best)} candidates at minimal distance for {sig}")
            return True

        wrapped = icontract.ensure(bsm_unique, error=PostBroken)(signature.best_signature_match)
        signature.best_signature_match = wrapped

        def lca_is_dtype(dtypes, result):
            cls.evaluations["lca_type"] += 1
            if not isinstance(result, Dtype):
                cls.broken.append("lca_type returned a non-Dtype")
            return True

        types.lca_type = icontract.ensure(lca_is_dtype, error=PostBroken)(types.lca_type)
        return True


def outcome(fn):
    try:
        r = fn()
    except Exception as e:  # noqa: BLE001
        return ("raise", type(e).__name__)
    return ("none",) if r is None else ("ok", repr(r))


def sweep(tier, seed):
    """Returns dict key -> outcome. key = 'op|t1,t2' (repr of types)."""
    import uuid

    from pydiverse.transform._internal.ops.op import Ftype
    from pydiverse.transform._internal.ops.signature import SignatureTrie
    from pydiverse.transform._internal.tree import types
    from pydiverse.transform._internal.tree.col_expr import CaseExpr, Col, ColFn, LiteralCol

    plain, const = universe()
    allt = plain + const
    table = {}
    rev = {}
    rng = random.Random(f"C13:{seed}")
    samples_per_op = 300 if tier == "quick" else 3000

    def dummy(t):
        return Col("x", None, uuid.uuid1(), t, Ftype.ELEMENT_WISE)

    for name, op in all_operators():
        rtrie = SignatureTrie()
        for s in reversed(op.signatures):
            rtrie.insert(s.types, s.return_type, s.is_vararg)
        for ar in arities(op):
            if ar <= 2:
                tuples = itertools.product(allt, repeat=ar)
            else:
                tuples = (tuple(rng.choice(allt) for _ in range(ar)) for _ in range(samples_per_op))
            for tup in tuples:
                key = f"{name}|{','.join(repr(t) for t in tup)}"
                table[key] = outcome(lambda: op.return_type(list(tup)))  # noqa: B023

                def via_rev():
                    m = rtrie.best_match(list(tup))  # noqa: B023
                    return None if m is None else m[1]

                rev[key] = outcome(via_rev)
    # ColFn construction (the documented DataTypeError on no match) for a seeded sample + all unary tuples
    colfn = {}
    ops_ = all_operators()
    for name, op in ops_:
        for ar in arities(op):
            if ar == 0 or ar > 3:
                continue
            tuples = list(itertools.product(allt, repeat=ar)) if ar == 1 else [tuple(rng.choice(allt) for _ in range(ar)) for _ in range(60 if tier == "quick" else 600)]
            for tup in tuples:
                key = f"{name}|{','.join(repr(t) for t in tup)}"
                colfn[key] = outcome(lambda: ColFn(op, *[dummy(t) for t in tup]).dtype())  # noqa: B023
    # case expression typing through lca_type
    case = {}
    for a, b in itertools.product(plain, repeat=2):
        key = f"case|{a!r},{b!r}"
        case[key] = outcome(lambda: CaseExpr([(LiteralCol(True), dummy(a))], dummy(b)).dtype())  # noqa: B023
    _ = types
    return {"rt": table, "rev": rev, "colfn": colfn, "case": case}


def digest(tables):
    h = hashlib.sha256()
    for part in ("rt", "rev", "colfn", "case"):
        for k in sorted(tables[part]):
            h.update(k.encode())
            h.update(repr(tables[part][k]).encode())
    return h.hexdigest()


def analyse(run, tables):
    """Offline checks over the recorded outcome table."""
    from pydiverse.transform._internal.tree import types

    plain, const = universe()
    by_repr = {repr(t): t for t in plain + const}
    rt = tables["rt"]

    def viol(msg, feature=None, **kw):
        f = Finding("resolution", "typecheck", None, msg, exc=kw.get("exc"), extra={"feature": feature})
        run.finding(f, None, owned=True)

    # (i) totality: nothing but a Dtype, None (=> DataTypeError at the ColFn level), never an internal error
    ties = {}
    for part in ("rt", "rev"):
        for k, o in tables[part].items():
            if o[0] == "raise":
                nullish = "NullType" in k.split("|", 1)[1]
                ties.setdefault((part, o[1], nullish, k.split("|")[0]), []).append(k)
    for (part, cls, nullish, opname), ks in sorted(ties.items()):
        feat = "nulltype_argument_tie" if (cls == "AssertionError" and nullish) else None
        viol(f"{part}: Operator `{opname}`.return_type raised {cls} for {len(ks)} argument tuples, e.g. {ks[0]}", feature=feat, exc=cls)
    for part in ("colfn", "case"):
        bad = {}
        for k, o in tables[part].items():
            if o[0] == "raise" and o[1] != "DataTypeError":
                nullish = "NullType" in k.split("|", 1)[1]
                bad.setdefault((o[1], nullish, k.split("|")[0]), []).append(k)
        for (cls, nullish, opname), ks in sorted(bad.items()):
            feat = "nulltype_argument_tie" if (cls == "AssertionError" and nullish) else ("lca_list_nonlist" if (part == "case" and cls == "AttributeError") else None)
            viol(f"{part}: `{opname}` raised {cls} (not DataTypeError) for {len(ks)} tuples, e.g. {ks[0]}", feature=feat, exc=cls)
    # (iii) insertion order
    diff = [k for k in rt if rt[k] != tables["rev"][k]]
    run.counters["insertion_order_compared"] += len(rt)
    if diff:
        viol(f"result depends on signature declaration order for {len(diff)} tuples, e.g. {diff[0]}: {rt[diff[0]]} vs {tables['rev'][diff[0]]}")
    # (iv) uniformity over sized members of a family, (v) const accepted where plain is
    INTS = [t for t in plain if t.is_int() and type(t).__name__ != "Int"]
    FLOATS = [t for t in plain if type(t).__name__ in ("Float32", "Float64", "Decimal")]
    nonuni = {}
    noconst = {}
    checked_u = checked_c = checked_l = 0
    for k, o in rt.items():
        opname, sig = k.split("|", 1)
        parts = sig.split(",") if sig else []
        # Decimal(10, 2) has a comma in its repr: re-split conservatively
        if "Decimal(" in sig or "Enum(" in sig or "List" in sig:
            continue
        for i, p in enumerate(parts):
            base = p.replace("const ", "")
            isconst = p.startswith("const ")
            members = INTS if base == "Int" else FLOATS if base == "Float" else None
            if members is not None and o[0] == "ok":
                for m in members:
                    q = parts.copy()
                    q[i] = ("const " if isconst else "") + repr(m)
                    o2 = rt.get(opname + "|" + ",".join(q))
                    if o2 is None:
                        continue
                    checked_u += 1
                    if o2[0] != "ok":
                        nonuni.setdefault(opname, []).append((k, repr(m), o2))
                    else:
                        f1 = _fam_of_repr(o[1])
                        f2 = _fam_of_repr(o2[1])
                        if f1 != f2:
                            nonuni.setdefault(opname, []).append((k, repr(m), o2))
            # (v') a Python literal (const Int / const Float / const String) is accepted wherever a column of a sized
            #      member of its family is (literals are how constants reach an operator in practice)
            litgen = "Int" if base in [repr(t) for t in INTS] else "Float" if base in ("Float32", "Float64") else "String(None)" if base.startswith("String(") and base != "String(None)" else None
            if not isconst and o[0] == "ok" and litgen is not None:
                q = parts.copy()
                q[i] = "const " + litgen
                o2 = rt.get(opname + "|" + ",".join(q))
                if o2 is not None:
                    checked_l += 1
                    if o2[0] != "ok":
                        noconst.setdefault(opname, []).append((k, o2, "literal of the generic type"))
            if not isconst and o[0] == "ok":
                q = parts.copy()
                q[i] = "const " + p
                o2 = rt.get(opname + "|" + ",".join(q))
                if o2 is not None:
                    checked_c += 1
                    if o2[0] != "ok":
                        noconst.setdefault(opname, []).append((k, o2))
    run.counters["uniformity_substitutions_checked"] += checked_u
    run.counters["const_substitutions_checked"] += checked_c
    run.counters["literal_for_sized_column_substitutions_checked"] += checked_l
    for opname, lst in sorted(nonuni.items()):
        nullish = all("NullType" in x[0] for x in lst)
        viol(f"`{opname}`: accepted with the generic type but not uniformly with a sized member ({len(lst)} cases), e.g. {lst[0]}",
             feature="nulltype_argument_tie" if nullish and all(x[2][0] == "raise" for x in lst) else None)
    for opname, lst in sorted(noconst.items()):
        nullish = all("NullType" in x[0] for x in lst)
        viol(f"`{opname}`: accepts a column argument but not a constant one ({len(lst)} cases), e.g. {lst[0]}",
             feature="nulltype_argument_tie" if nullish and all(x[1][0] == "raise" for x in lst) else None)
    # (vi) parameters declared const reject column (non-const) arguments
    checked_k = 0
    for name, op in all_operators():
        for s in op.signatures:
            for i, p in enumerate(s.types):
                if not types.is_const(p):
                    continue
                base_sig = [types.without_const(x) if not _is_tyvar(x) else None for x in s.types]
                if any(b is None for b in base_sig):
                    continue
                args = [types.with_const(b) if types.is_const(x) else b for b, x in zip(base_sig, s.types)]
                if [type(a).__name__ for a in args] and any(type(types.without_const(a)).__name__ in ("Int", "Float") for a in args):
                    args = [_concretise(a) for a in args]
                ok = outcome(lambda: op.return_type(list(args)))  # noqa: B023
                args2 = list(args)
                args2[i] = types.without_const(args2[i])
                bad = outcome(lambda: op.return_type(list(args2)))  # noqa: B023
                checked_k += 1
                if ok[0] == "ok" and bad[0] == "ok":
                    viol(f"`{name}`: parameter {i} is declared const but a column argument is accepted: {args2}")
    run.counters["const_parameter_rules_checked"] += checked_k
    _ = by_repr


def _is_tyvar(t):
    from pydiverse.transform._internal.tree import types

    return type(types.without_const(t)).__name__ == "Tyvar"


def _concretise(t):
    import pydiverse.transform as pdt
    from pydiverse.transform._internal.tree import types

    b = types.without_const(t)
    n = type(b).__name__
    c = pdt.Int64() if n == "Int" else pdt.Float64() if n == "Float" else b
    return types.with_const(c) if types.is_const(t) else c


def _fam_of_repr(r):
    r = r.replace("const ", "")
    if r.startswith("List["):
        return "List[" + _fam_of_repr(r[5:-1]) + "]"
    if r.startswith(("Int", "UInt")):
        return "int"
    if r.startswith(("Float", "Decimal")):
        return "float"
    if r.startswith(("String", "Enum")):
        return "str"
    return r.split("(")[0]


def execute(run, prop, shard):
    ok = Contracts.install()
    tables = sweep(run.tier, run.seed)
    n = sum(len(v) for v in tables.values())
    run.evaluations = n
    dg = digest(tables)
    if shard is not None:
        run.extra["digest"] = dg
        run.extra["table_size"] = n
        run.extra["contract_evaluations"] = dict(Contracts.evaluations)
        # ship a compact table for diffing on mismatch
        run.extra["rt_compact"] = {k: list(v) for k, v in list(tables["rt"].items())}
        return
    # distinct non-trivial: distinct (operator, arity) pairs with at least one accepted and one rejected tuple
    per = {}
    for k, o in tables["rt"].items():
        opname, sig = k.split("|", 1)
        per.setdefault((opname, sig.count(",") + (1 if sig else 0)), set()).add(o[0])
    for key, outs in per.items():
        if len(outs) >= 2:
            run.shapes.add(repr(key))
    run.samples = [{"call": k, "outcome": list(v)} for k, v in list(tables["rt"].items())[1000:1005]] + \
                  [{"call": k, "outcome": list(v)} for k, v in tables["rt"].items() if v[0] == "raise"][:3]
    run.counters["return_type_calls"] = len(tables["rt"])
    run.counters["reversed_insertion_calls"] = len(tables["rev"])
    run.counters["colfn_constructions"] = len(tables["colfn"])
    run.counters["case_typings"] = len(tables["case"])
    run.counters["accepted"] = sum(1 for v in tables["rt"].values() if v[0] == "ok")
    run.counters["rejected"] = sum(1 for v in tables["rt"].values() if v[0] == "none")
    run.counters["raised"] = sum(1 for v in tables["rt"].values() if v[0] == "raise")
    run.extra["contract_evaluations"] = dict(Contracts.evaluations)
    for b in Contracts.broken[:5]:
        pass  # ties are reported through the outcome table (AssertionError of the repository's own assert)
    run.inconclusive_if(not ok, "icontract not importable: contracts not installed")
    run.inconclusive_if(ok and min(Contracts.evaluations.values()) == 0, f"a contract was never evaluated: {Contracts.evaluations}")
    analyse(run, tables)
    # (ii) determinism across hash seeds: workers in fresh interpreters
    seeds = [1, 12345] if run.tier == "quick" else [1, 7, 12345, 987654321]
    tmp = tempfile.mkdtemp(prefix="pdtverif_C13_")
    try:
        procs = []
        for hs in seeds:
            outp = os.path.join(tmp, f"h{hs}.json")
            env = dict(os.environ, PYTHONHASHSEED=str(hs))
            cmd = [sys.executable, "-B", os.path.join(harness.VERIF, "bin", "check.py"), "C13", "--tier", run.tier, "--seed", str(run.seed),
                   "--shard", "0/1", "--partial", outp]
            procs.append((hs, outp, subprocess.Popen(cmd, env=env, stdout=subprocess.PIPE, stderr=subprocess.STDOUT, text=True)))
        for hs, outp, p in procs:
            try:
                so, _ = p.communicate(timeout=900)
            except subprocess.TimeoutExpired:
                p.kill()
                run.inconclusive.append(f"hash-seed worker {hs} timed out")
                continue
            if not os.path.exists(outp):
                run.inconclusive.append(f"hash-seed worker {hs} died: {so[-300:]}")
                continue
            d = json.load(open(outp))["extra"]
            run.counters["hash_seed_workers"] += 1
            if d["digest"] != dg:
                other = d["rt_compact"]
                diff = [k for k in tables["rt"] if list(tables["rt"][k]) != other.get(k)]
                f = Finding("resolution", "typecheck", None,
                            f"outcome table differs under PYTHONHASHSEED={hs} for {len(diff)} calls, e.g. {diff[:2]}", extra={"feature": None})
                run.finding(f, None, owned=True)
    finally:
        shutil.rmtree(tmp, ignore_errors=True)
    run.extra["hash_seeds_compared"] = seeds


def finalize(run, prop):
    return run.finish(
        "complete sweep of Operator.return_type over operators x argument-type tuples of arity <= 2 over 25 types x {plain, const}, seeded "
        "samples for arity >= 3 and varargs, repeated with reversed signature insertion order and in fresh interpreters with different "
        "PYTHONHASHSEED; ColFn construction and case-expression typing on samples; offline: totality, determinism, family uniformity, const rules. "
        "distinct = (operator, arity) pairs that showed both acceptance and rejection",
        ["the type universe of the property statement (8 int widths, 2 float widths, decimals, strings, enum, bool, date, datetime, time, duration, null, lists)",
         "arity >= 3 is sampled, not enumerated"],
    )


def thorough_timeout(prop):
    return 1500


def replay(prop, path):
    print(open(path).read()[:2000])
    return 1
