"""C08 — SQL: a verb needing a subquery raises SubqueryError or is compiled correctly.

Workload: pipelines over the alphabet {filter, filter on a window column, element-wise / window /
aggregate mutate, summarize, slice_head, arrange, group_by, join (each side prepared), union, select,
rename} in random and covering orders, with and without alias() at every position, on SQLite and Polars.
Oracles: (a) soundness — whenever SQLite accepts the pipeline its export equals REF (and Polars');
(b) repair — inserting alias() directly before a verb that raised SubqueryError makes that verb accepted;
(c) the simple class never raises SubqueryError; (d) Polars never raises it; (e) I3 keeps the detection
state honest.  M-INT records every requires_subquery decision (reasons seen are in the evidence).
"""

from __future__ import annotations

import copy
import itertools
import json
import random

from .. import drive, gen, render, runner
from .. import monitors as M
from ..runner import Finding
from . import pipeline

SHARDED = True


def first_subquery_error(prog, be_cache, want_outcomes=False):
    """Returns the index of the first step that raises SubqueryError on SQLite (or None)."""
    be = be_cache.get("sqlite") or drive.Backend("sqlite")
    be_cache["sqlite"] = be
    rr = drive.RealRun(prog, be)
    with M.SQL.setup():
        rr.setup_tables()
    ok = {t["handle"] for t in prog["tables"]}
    outcomes = {}
    first = (None, None)
    for i, st in enumerate(prog["steps"]):
        if st["in"] not in ok or ("right" in st and st["right"] not in ok):
            outcomes[i] = "skipped"
            continue
        try:
            rr.env[st["out"]] = rr.apply(st)
            ok.add(st["out"])
            outcomes[i] = "ok"
        except Exception as e:  # noqa: BLE001
            outcomes[i] = type(e).__name__ + ": " + str(e)[:120]
            if type(e).__name__ == "SubqueryError" and first[0] is None:
                first = (i, str(e))
    if want_outcomes:
        return first[0], first[1], outcomes
    return first


def with_alias_before(prog, i, side):
    """Insert `>> alias()` directly before step i on its left / right input."""
    q = copy.deepcopy(prog)
    st = q["steps"][i]
    key = "in" if side == "left" else "right"
    if key not in st:
        return None
    new = f"A{i}{side[0]}"
    q["steps"].insert(i, {"in": st[key], "out": new, "verb": "alias", "keep": False})
    st[key] = new
    return q


def repair_check(run, prog, i, msg, be_cache):
    """(b): alias() directly before the refused verb must make it accepted."""
    st = prog["steps"][i]
    tried = []
    for sides in (["left"], ["right"], ["left", "right"]):
        q = prog
        idx = i
        okq = True
        for sd in sides:
            q2 = with_alias_before(q, idx, sd)
            if q2 is None:
                okq = False
                break
            q = q2
            idx += 1
        if not okq:
            continue
        j, m2, outcomes = first_subquery_error(q, be_cache, want_outcomes=True)
        tried.append((sides, outcomes.get(idx)))
        if outcomes.get(idx) == "ok":
            run.counters["repairs_confirmed"] += 1
            run.counters["repair_side:" + "+".join(sides)] += 1
            return None
    return Finding("repair", "sqlite", i, f"`{st['verb']}` raised SubqueryError ({msg.splitlines()[1] if len(msg.splitlines()) > 1 else msg[:80]}) "
                   f"and still does with alias() directly before it (tried {tried})", verb=st["verb"], exc="SubqueryError")


def covering_orders(rng, n):
    """All ordered pairs and a seeded sample of ordered triples of the alphabet."""
    A = gen.SUBQ_ALPHABET
    pairs = list(itertools.product(A, repeat=2))
    triples = list(itertools.product(A, repeat=3))
    rng.shuffle(triples)
    out = [list(p) for p in pairs] + [list(t) for t in triples]
    return out[:n]


def execute(run, prop, shard):
    si = shard[0] if shard else 0
    rng = random.Random(f"C08:{run.seed}:{run.tier}:{si}")
    n = 700 if run.tier == "quick" else 2600
    orders = covering_orders(rng, n // 2)
    cache = {}
    opts = {"reexport_every": 0}
    for i in range(n):
        s = pipeline.case_seed(run.seed + 31, run.tier, si, i)
        order = orders[i] if i < len(orders) else None
        alias_at = ()
        if rng.random() < 0.5:
            L = len(order) if order else 5
            alias_at = tuple(sorted(rng.sample(range(L), rng.randint(1, min(2, L)))))
        c_only = (i % 3) != 2
        if not c_only:
            # references through earlier table handles (e.g. to a window column that a select has hidden since);
            # no repair re-run for these: an inserted alias() would cut the references by design
            order = [rng.choice(gen.SUBQ_ALPHABET_REFS) for _ in range(rng.randint(3, 7))]
            if rng.random() < 0.6:
                k = rng.randrange(len(order))
                order[k:k] = ["mutate_win", "select", "filter", "use_hidden_win"]
        try:
            prog = gen.gen_subq(s, order, alias_at, c_only=c_only)
        except Exception as e:  # noqa: BLE001
            run.counters["generator_failures"] += 1
            run.extra.setdefault("generator_failure_examples", [])
            if len(run.extra["generator_failure_examples"]) < 3:
                run.extra["generator_failure_examples"].append(f"{order}:{s}:{type(e).__name__}:{e}")
            continue
        out = runner.run_program(prog, opts=opts, be_cache=cache)
        run.case(prog)
        run.counters["probes_judged"] += out.probes_judged
        for be, rule in out.excluded.items():
            run.counters[f"excluded_by_domain:{be}:{rule.split(':')[0]}"] += 1
        if "sqlite" not in out.refused:
            run.counters["accepted_on_sqlite"] += 1
        fs = list(out.findings)
        for be, (st_i, cls) in out.refused.items():
            run.counters[f"refused:{be}:{cls}"] += 1
            if be == "pol":
                fs.append(Finding("pol_subquery", "pol", st_i, f"Polars raised {cls}", exc=cls))
            elif cls == "SubqueryError" and isinstance(st_i, int) and c_only:
                j, msg = first_subquery_error(prog, cache)
                if j is not None:
                    f = repair_check(run, prog, j, msg, cache)
                    if f is not None:
                        fs.append(f)
        for f in fs:
            if f.kind == "harness":
                run.counters["harness_problems"] += 1
                continue
            own = f.kind.startswith(("value:", "exc:sqlite", "repair", "pol_subquery", "san:I3", "san:C08"))

            def still(q, f0=f):
                oo = runner.run_program(q, opts=opts)
                return any(g.kind == f0.kind and g.exc == f0.exc and g.backend == f0.backend for g in oo.findings)

            run.finding(f, prog, owned=own, reshrink=(still if not f.kind.startswith(("repair", "pol_subquery")) else None),
                        ctx={"ref": out.ref_env.get(f.backend if f.backend in out.ref_env else "pol"), "real": out.real_env.get(f.backend if f.backend in out.real_env else "pol")})
    # (c) the simple class never needs a subquery
    m = 300 if run.tier == "quick" else 1200
    for i in range(m):
        s = pipeline.case_seed(run.seed + 37, run.tier, si, i)
        try:
            prog = gen.gen_simple(s)
        except Exception:
            run.counters["generator_failures"] += 1
            continue
        out = runner.run_program(prog, opts=opts, be_cache=cache)
        run.case(prog)
        run.counters["simple_class_programs"] += 1
        run.counters["probes_judged"] += out.probes_judged
        fs = list(out.findings)
        for be, (st_i, cls) in out.refused.items():
            if cls == "SubqueryError":
                fs.append(Finding("simple_refused", be, st_i, f"a pipeline of the simple class raised SubqueryError at step {st_i}", exc=cls))
        for f in fs:
            if f.kind == "harness":
                continue
            own = f.kind.startswith(("value:", "exc:sqlite", "simple_refused", "san:I3"))

            def still(q, f0=f):
                oo = runner.run_program(q, opts=opts)
                if f0.kind == "simple_refused":
                    return any(c == "SubqueryError" for _b, (_s, c) in oo.refused.items())
                return any(g.kind == f0.kind and g.exc == f0.exc and g.backend == f0.backend for g in oo.findings)

            run.finding(f, prog, owned=own, reshrink=still, ctx={"ref": out.ref_env.get(f.backend if f.backend in out.ref_env else "pol"), "real": out.real_env.get(f.backend if f.backend in out.real_env else "pol")})
    # (f) several same-named column versions inside one subquery (labels inside, names outside)
    n_col = 240 if run.tier == "quick" else 1400
    for i in range(n_col):
        s = pipeline.case_seed(run.seed + 47, run.tier, si, i)
        try:
            # (g) every third program: subquery edge cases (nothing needed from the subquery, unions of subqueries, alias chains)
            prog = gen.gen_subq_edges(s) if i % 3 == 2 else gen.gen_collide(s)
        except Exception:
            run.counters["generator_failures"] += 1
            continue
        out = runner.run_program(prog, opts={"reexport_every": 1}, be_cache=cache)
        run.case(prog)
        run.counters["subquery_edge_programs" if i % 3 == 2 else "collision_programs"] += 1
        run.counters["probes_judged"] += out.probes_judged
        for f in out.findings:
            if f.kind == "harness":
                continue
            own = f.kind.startswith(("value:", "exc:sqlite", "san:I3", "reexport:sqlite", "names:"))

            def still(q, f0=f):
                oo = runner.run_program(q, opts={"reexport_every": 1})
                return any(g.kind == f0.kind and g.exc == f0.exc and g.backend == f0.backend for g in oo.findings)

            run.finding(f, prog, owned=own, reshrink=still)
    run.extra["subquery_decisions_observed"] = {str(k): int(v) for k, v in M.INT.subquery_reasons.items()}
    if shard is None:
        run.inconclusive_if(M.INT.hits.get("Cache.requires_subquery", 0) == 0, "requires_subquery was never observed")
        run.inconclusive_if(run.counters["repairs_confirmed"] < 20, "fewer than 20 alias() repairs were exercised")
        run.inconclusive_if(len([k for k in M.INT.subquery_reasons if k != "<none>"]) < 6, "fewer than 6 distinct subquery reasons observed")


def finalize(run, prop):
    if run.shard is None and "shard_subquery_reasons" in run.extra:
        run.extra["subquery_decisions_observed"] = run.extra["shard_subquery_reasons"]
    return run.finish(
        "all ordered pairs and sampled ordered triples plus random orders (length 2-6) of {filter, filter on window column, element-wise / window / "
        "aggregate mutate, summarize, slice_head, arrange, group_by, join with prepared sides, union, select, rename} with name-based references, "
        "with and without alias() at 1-2 random positions; (a) accepted on SQLite => export == REF (== Polars), (b) alias() before a refused verb "
        "makes it accepted (left, right or both inputs), (c) simple-class pipelines never raise SubqueryError, (d) Polars never raises it, (e) I3, "
        "(f) overwritten columns whose older versions are used through kept references after a subquery (same name several times inside it): "
        "export == REF, second export and second build_query identical, (g) subqueries from which no column is needed, unions whose operands "
        "are subqueries or unions, alias chains, arrange by a window / aggregate column followed by a window function without arrange= (its "
        "inherited sort key is a window function: SubqueryError or one correct statement)",
        pipeline.ASSUME_COMMON,
    )


def thorough_timeout(prop):
    return 1500


def replay(prop, path):
    d = json.load(open(path))
    prog = d["program"]
    print(render.program(prog))
    out = runner.run_program(prog, opts={"reexport_every": 0})
    from .. import kf

    entries = kf.load()
    bad = []
    for f in out.findings:
        e = kf.classify(entries, prop, f, prog, None) if f.kind.startswith(("value:", "exc:sqlite", "san:I3")) else None
        print((f"KNOWN-FINDING: property={prop} {e['id']} " if e else "") + f.brief())
        if e is None and f.kind.startswith(("value:", "exc:sqlite", "san:I3")):
            bad.append(f)
    print("refused:", out.refused)
    cache = {}
    # the alias()-repair is only defined for programs whose references go through `C.` (an inserted alias() cuts
    # references through earlier handles by design): re-run it only for a recorded repair finding
    j, msg = first_subquery_error(prog, cache) if d.get("kind") == "repair" else (None, None)
    if j is not None:
        class R:
            counters = __import__("collections").Counter()
        f = repair_check(R, prog, j, msg, cache)
        if f is not None:
            print(f.brief())
            bad.append(f)
    if bad:
        print(f"VIOLATION property={prop} replay={path}")
        return 1
    return 0
