"""C17 — casts follow the documented conversion table.

(a) acceptance sweep: the real `Cast(col_of(src), tgt)` for every (source, target) pair over the type
    universe; the outcome table must equal the documented table (docstring of ColExpr.cast + the
    property statement + implicit conversions) and rejections must be DataTypeError raised when the
    expression is *built*.
(b) value sweep: every documented conversion on boundary pools, on Polars and SQLite, as column, as
    literal and nested, each cell compared with REF's cast table.
"""

from __future__ import annotations

import itertools
import json
import uuid

from .. import render, runner
from ..gen import col, fn, lit
from ..runner import Finding
from . import c13, pipeline

SHARDED = False


def expected_accept(src, tgt):
    """Documented acceptance at the family level. src/tgt are real Dtype objects (non-const)."""
    from pydiverse.transform._internal.tree import types

    sf, tf = c13.family(src), c13.family(tgt)
    names = (type(src).__name__, type(tgt).__name__)
    if any(n in ("Enum", "Decimal") or n.startswith("UInt") for n in names) or getattr(tgt, "max_length", None) or getattr(src, "max_length", None):
        return None  # not mentioned by the documented table either way: not judged
    if types.converts_to(src, tgt):
        return True  # implicit conversions need no cast and are therefore castable
    generic_tgt = type(tgt).__name__ in ("Int", "Float")
    table = {
        ("float", "int"), ("str", "int"), ("str", "float"), ("int", "str"), ("float", "str"), ("int", "int"), ("float", "float"),
        ("Datetime", "Date"), ("Datetime", "str"), ("Date", "str"), ("Date", "Datetime"), ("Bool", "int"), ("Bool", "float"), ("int", "float"),
    }  # fmt: skip
    if (sf, tf) not in table:
        return False
    if tf == "str":
        # the table speaks of String; a length-limited String / Enum target is not in it (String -> Enum is allowed by the code)
        return type(tgt).__name__ == "String" and getattr(tgt, "max_length", None) is None
    if sf == "str" and type(src).__name__ == "Enum":
        return False
    if generic_tgt and sf != tf:
        return False  # the table lists sized targets
    if tf in ("int", "float") and type(tgt).__name__ == "Decimal" and sf not in ("float", "int", "str", "Bool"):
        return False
    return True


def acceptance_sweep(run):
    from pydiverse.transform._internal.ops.op import Ftype
    from pydiverse.transform._internal.tree.col_expr import Cast, Col

    plain, const = c13.universe()
    n = 0
    mism = {}
    for src, tgt in itertools.product(plain + const, plain):
        n += 1
        c = Col("x", None, uuid.uuid1(), src, Ftype.ELEMENT_WISE)
        try:
            Cast(c, tgt)
            got = "accept"
        except Exception as e:  # noqa: BLE001
            got = type(e).__name__
        from pydiverse.transform._internal.tree import types

        exp = expected_accept(types.without_const(src), tgt)
        key = None
        if exp is None:
            run.counters["cast_pairs_unspecified_by_the_table"] += 1
            if got not in ("accept", "DataTypeError"):
                mism.setdefault(("wrong_class:" + got, c13.family(src), c13.family(tgt)), []).append(f"{src!r}->{tgt!r}")
            continue
        if got == "accept" and not exp:
            key = ("accepted_undocumented", c13.family(src), c13.family(tgt))
        elif got != "accept" and exp:
            key = ("rejected_documented:" + got, c13.family(src), c13.family(tgt))
        elif got not in ("accept", "DataTypeError"):
            key = ("wrong_class:" + got, c13.family(src), c13.family(tgt))
        if key:
            mism.setdefault(key, []).append(f"{src!r}->{tgt!r}")
    run.counters["cast_pairs_checked"] += n
    run.evaluations += n
    for key, lst in sorted(mism.items()):
        f = Finding("cast_acceptance", "typecheck", None, f"{key[0]}: {key[1]} -> {key[2]} for {len(lst)} pairs, e.g. {lst[:3]}",
                    extra={"feature": "cast_acceptance:" + key[0].split(":")[0] + f":{key[1]}->{key[2]}"})
        run.finding(f, None, owned=True)
    run.shapes.update(f"pair:{c13.family(s)}->{c13.family(t)}" for s, t in itertools.product(plain, plain))


FLOATS = [-434.4, -2.5, -0.75, -0.2, -0.0, 0.0, 0.2, 0.99, 3.5, 10.3, 2147483648.5, -2147483649.5, 9007199254740992.0, 1e15, None]
INTS = [-2147483649, -129, -128, -1, 0, 1, 7, 127, 128, 32768, 2147483647, 2147483648, 9007199254740992, 9007199254740993, None]
STR_INT = ["0", "7", "-7", "+5", "007", "-0", "127", "128", "2147483648", "12x", " 5", "5 ", "", "1.5", None]
STR_FLOAT = ["0", "1.5", "-2.25", "+0.5", "007.50", "1e3", ".5", "5.", "abc", " 1.5", None]
BOOLS = [True, False, None]
DATES = ["1999-12-31", "2000-02-29", "2020-02-29", "2021-03-01", None]
DTS = ["1999-12-31T23:59:59", "2020-02-29T13:45:10.250000", "2021-07-15T00:00:00", "2024-01-01T08:05:00.000001", None]


def value_cases(tier):
    def prog(colname, dtype, rows, kw, label):
        tbl = {"handle": "T0", "name": "t", "schema": [["k", "Int64"], [colname, dtype]], "rows": [[i, v] for i, v in enumerate(rows)], "shape": "boundary_pool"}
        return label, {"tables": [tbl], "steps": [{"in": "T0", "out": "T1", "verb": "mutate", "kw": kw}], "probes": ["T1"], "meta": {"label": label}}

    def cast(e, to):
        return {"k": "cast", "e": e, "to": to}

    a = col("T0", "a")
    yield prog("a", "Float64", FLOATS, [[f"to_{t}", cast(a, t)] for t in ("Int64", "Int32", "Int16", "Int8")] + [["neg", cast(fn("neg", a), "Int64")],
               ["nested", fn("add", cast(a, "Int64"), lit(1))], ["of_expr", cast(fn("mul", a, lit(2.0)), "Int64")], ["str", cast(a, "String")],
               ["twice", cast(cast(a, "Int64"), "Float64")]], "float->int/str")
    yield prog("a", "Int64", INTS, [[f"to_{t}", cast(a, t)] for t in ("Int32", "Int16", "Int8", "Float64", "String")]
               + [["str_len", fn("str.len", cast(a, "String"))], ["concat", fn("add", cast(a, "String"), lit("x"))], ["half", fn("truediv", cast(a, "Float64"), lit(2.0))],
                  ["roundtrip", cast(cast(a, "String"), "Int64")]], "int->*")
    yield prog("a", "String", STR_INT, [[f"to_{t}", cast(a, t)] for t in ("Int64", "Int32", "Int8")] + [["plus", fn("add", cast(a, "Int64"), lit(1))]], "str->int")
    yield prog("a", "String", STR_FLOAT, [["to_Float64", cast(a, "Float64")], ["dbl", fn("mul", cast(a, "Float64"), lit(2.0))]], "str->float")
    yield prog("a", "Bool", BOOLS, [[f"to_{t}", cast(a, t)] for t in ("Int64", "Int8", "Float64")] + [["sum2", fn("add", cast(a, "Int64"), cast(a, "Int64"))]], "bool->num")
    yield prog("a", "Date", DATES, [["to_str", cast(a, "String")], ["to_dt", cast(a, "Datetime")], ["dt_hour", fn("dt.hour", cast(a, "Datetime"))],
                                    ["cmp", fn("eq", cast(a, "Datetime"), lit("2020-02-29T00:00:00", "datetime"))]], "date->*")
    yield prog("a", "Datetime", DTS, [["to_str", cast(a, "String")], ["to_date", cast(a, "Date")], ["year", fn("dt.year", cast(a, "Date"))],
                                      ["back", cast(cast(a, "Date"), "Datetime")]], "datetime->*")
    # literals
    yield prog("a", "Int64", [1, 2], [["l1", cast(lit(3.7, None) | {"wrap": True}, "Int64")], ["l2", cast(lit(-3.7) | {"wrap": True}, "Int64")],
                                      ["l3", cast(lit("42") | {"wrap": True}, "Int64")], ["l4", cast(lit(True) | {"wrap": True}, "Int64")],
                                      ["l5", cast(lit(7) | {"wrap": True}, "String")], ["l6", cast(lit(None) | {"wrap": True}, "Int64")],
                                      ["l7", cast(lit("2020-02-29", "date") | {"wrap": True}, "String")]], "literals")


    # two casts nested in ONE expression: the result depends on the type of the intermediate value, not only on its value
    yield prog("a", "Int64", INTS, [["i_f_s", cast(cast(a, "Float64"), "String")], ["i_f_i", cast(cast(a, "Float64"), "Int64")],
                                    ["i_s_f", cast(cast(a, "String"), "Float64")],
                                    ["i_i8_s", cast(cast(a, "Int8"), "String")]], "int->x->y")
    yield prog("a", "Float64", FLOATS, [["f_i_s", cast(cast(a, "Int64"), "String")], ["f_i_f", cast(cast(a, "Int64"), "Float64")], ["f_s_f", cast(cast(a, "String"), "Float64")],
                                        ["f_i_i8", cast(cast(a, "Int64"), "Int8")]], "float->x->y")  # (no narrowing to Float32: SQLite has one float width)
    yield prog("a", "Bool", BOOLS, [["b_i_s", cast(cast(a, "Int64"), "String")], ["b_i_f", cast(cast(a, "Int64"), "Float64")], ["b_f_s", cast(cast(a, "Float64"), "String")],
                                    ["b_f_i", cast(cast(a, "Float64"), "Int64")]], "bool->x->y")
    yield prog("a", "String", STR_INT, [["s_i_f", cast(cast(a, "Int64"), "Float64")], ["s_i_s", cast(cast(a, "Int64"), "String")], ["s_f_s", cast(cast(a, "Float64"), "String")]], "str->x->y")
    yield prog("a", "Date", DATES, [["d_dt_s", cast(cast(a, "Datetime"), "String")], ["d_dt_d", cast(cast(a, "Datetime"), "Date")]], "date->x->y")
    yield prog("a", "Datetime", DTS, [["dt_d_s", cast(cast(a, "Date"), "String")], ["dt_d_dt_s", cast(cast(cast(a, "Date"), "Datetime"), "String")]], "datetime->x->y")
    yield prog("a", "Float32", [0.5, -2.25, 3.0, None, 1e10], [["f32_f_s", cast(cast(a, "Float64"), "String")], ["f32_i_s", cast(cast(a, "Int64"), "String")], ["f32_f_i", cast(cast(a, "Float64"), "Int64")]], "float32->x->y")

    # constant operands of every accepted pair (a literal has a `const` type: dialect special cases must still apply)
    w = {"wrap": True}
    ldt, ld = lit("2020-01-31T23:59:59", "datetime") | w, lit("2020-02-29", "date") | w
    yield prog("a", "Date", DATES[:3], [["ld_date_to_dt", cast(ld, "Datetime")], ["ld_dt_to_date", cast(ldt, "Date")], ["ld_dt_to_date_str", cast(cast(ldt, "Date"), "String")],
                                        ["ld_dt_to_str", cast(ldt, "String")], ["ld_date_to_str", cast(ld, "String")], ["ld_cmp", fn("eq", a, cast(ldt, "Date"))],
                                        ["ld_back", cast(cast(ld, "Datetime"), "Date")], ["ld_year", fn("dt.year", cast(ldt, "Date"))]], "temporal literals")
    yield prog("a", "Int64", [1, 2], [["lf_str", cast(lit(2.5) | w, "String")], ["lb_float", cast(lit(True) | w, "Float64")], ["ls_float", cast(lit("1.5") | w, "Float64")],
                                      ["li_float", cast(lit(3) | w, "Float64")], ["lf_int8", cast(lit(-7.9) | w, "Int8")], ["ls_int_signed", cast(lit("-007") | w, "Int64")],
                                      ["li_str_expr", fn("add", cast(lit(12) | w, "String"), lit("x"))], ["lnull_str", cast(lit(None) | w, "String")]], "numeric literals")


def in_domain_variants(label, prog):
    """One program per conversion, restricted to the rows REF calls defined (an engine may legitimately
    raise on the others and would take the whole table with it), plus the full hostile table."""
    import copy

    from .. import drive, ref

    for name, e in prog["steps"][0]["kw"]:
        q = copy.deepcopy(prog)
        q["steps"][0]["kw"] = [[name, e]]
        rf = drive.RefRun(q, "pol")
        rf.setup_tables()
        try:
            t1 = rf.apply(q["steps"][0])
        except Exception:
            continue
        cid = t1.name_to_id()[name]
        keep = [i for i, v in enumerate(t1.cols[cid].data) if v is not ref.TAINT]
        q["tables"][0]["rows"] = [q["tables"][0]["rows"][i] for i in keep]
        q["meta"]["label"] = f"{label}:{name}"
        yield f"{label}:{name}", q
    yield label + ":hostile", prog


def execute(run, prop, shard):
    acceptance_sweep(run)
    cache = {}
    n = 0
    for label, prog in itertools.chain.from_iterable(in_domain_variants(lb, pr) for lb, pr in value_cases(run.tier)):
        out = runner.run_program(prog, opts={"reexport_every": 0}, be_cache=cache)
        n += 1
        run.case(shape=("values", label), nontrivial=True, sample=render.program(prog, max_rows=4) if n in (1, 3) else None)
        run.counters["value_cells"] += len(prog["steps"][0]["kw"]) * len(prog["tables"][0]["rows"]) * len(out.frames)
        run.counters["probes_judged"] += out.probes_judged
        for be, rule in out.excluded.items():
            run.counters[f"excluded_by_domain:{be}:{rule.split(':')[0]}"] += 1
        for f in out.findings:
            if f.kind == "harness":
                run.counters["harness_problems"] += 1
                continue
            own = f.kind.startswith(("value:", "exc:", "accept:", "excls:"))

            def still(q, f0=f):
                oo = runner.run_program(q, opts={"reexport_every": 0})
                return any(g.kind == f0.kind and g.exc == f0.exc and g.backend == f0.backend for g in oo.findings)

            run.finding(f, prog, owned=own, reshrink=still)
    # random nesting of casts inside the C03 generator's expressions is covered by C03/C01 (cast nodes occur there)
    run.inconclusive_if(run.counters["probes_judged"] < n, "not every cast table reached the REF oracle on both backends")


def finalize(run, prop):
    return run.finish(
        "acceptance: every (source, target) pair of the 25-type universe (sources plain and const) through the real Cast constructor vs the "
        "documented table; values: every documented conversion over boundary pools (negative fractions, +-0, 2^31+-1, 2^53, numerals with sign / "
        "leading zeros / whitespace, nulls, leap days, microseconds) as column, literal and nested, on Polars and SQLite, each cell vs REF. "
        "distinct = distinct (source family, target family) pairs + value tables",
        pipeline.ASSUME_COMMON + ["narrowing integer casts that overflow, float->Float32, non-plain numerals and strict=False are excluded (documented backend-dependent)"],
    )


def thorough_timeout(prop):
    return 900


def replay(prop, path):
    d = json.load(open(path))
    if d.get("program"):
        print(render.program(d["program"]))
        out = runner.run_program(d["program"], opts={"reexport_every": 0})
        bad = [f for f in out.findings if f.kind.startswith(("value:", "exc:"))]
        for f in out.findings:
            print(f.brief())
        if bad:
            print(f"VIOLATION property={prop} replay={path}")
            return 1
        return 0
    print(d)
    return 1
