"""C19 — every accepted pipeline compiles on every SQL dialect.

(a) generated pipelines (the C01 families) are instantiated on SQLite, PostgreSQL and SQL Server tables
    (the latter two bound to engines with a stub DBAPI: they compile, never execute); `build_query` is
    called twice at every probe: the outcome must be one SELECT statement (quote-aware lexer) or
    NotSupportedError / SubqueryError, never an internal error, and both texts must be identical.
(b) operator sweep: every operator x every declared signature (instantiated with concrete types) on
    Polars (export), SQLite (export), PostgreSQL and SQL Server (build_query): implementation or
    NotSupportedError.  A sys.monitoring probe on SqlImpl.compile_col_expr reports an implementation
    that returns None (it would silently compile to NULL).
DuckDB and DB2 dialect plugins are not importable in this sandbox: skipped, as the property allows.
"""

from __future__ import annotations

import itertools
import json
import random

from .. import drive, gen, ref, render
from .. import monitors as M
from ..runner import Finding
from . import c18, pipeline

SHARDED = True
PERMITTED = {"NotSupportedError", "SubqueryError"}
DIALECTS = ("sqlite", "postgres", "mssql")


def one_statement_problems(sql):
    if not isinstance(sql, str) or not sql.strip():
        return ["build_query returned no text"]
    sk, _n = c18.skeleton(sql)
    if sk is None:
        return ["unterminated string literal"]
    probs = []
    head = sk.lstrip("( ").split(None, 1)[0].upper() if sk else ""
    if head not in ("SELECT", "WITH"):
        probs.append(f"statement starts with {head!r}")
    if ";" in sk.rstrip("; \n"):
        probs.append("top-level ';' (more than one statement)")
    if sk.count("(") != sk.count(")"):
        probs.append("unbalanced parentheses")
    import re

    flat = " ".join(sk.split())
    if re.search(r"\bSELECT\s+(DISTINCT\s+)?FROM\b", flat, re.I):
        probs.append("a SELECT with an empty column list")
    if re.search(r",\s*FROM\b|\bSELECT\s*,|,\s*,", flat, re.I):
        probs.append("a dangling comma in a column list")
    if re.search(r"\b(WHERE|HAVING|ON)\s*(GROUP BY|ORDER BY|LIMIT|\)|$)", flat, re.I):
        probs.append("an empty WHERE / HAVING / ON clause")
    return probs


def skipped_dialects():
    out = []
    for name, mod in (("duckdb", "duckdb_engine"), ("ibm_db2", "ibm_db_sa")):
        try:
            __import__(mod)
        except Exception:
            out.append(name)
    return out


def compile_program(run, prog, kind, cache):
    be = cache.get(kind) or drive.Backend(kind)
    cache[kind] = be
    if "aligned" in prog.get("meta", {}):
        # eval_aligned form: the foreign columns live in a Polars table / in Series
        from .. import aligned

        cache["pol"] = cache.get("pol") or drive.Backend("pol")
        rr = aligned.AlignedRun(prog, be, run.counters, u_backend=cache["pol"])
    else:
        rr = drive.RealRun(prog, be)
    with M.SQL.setup():
        rr.setup_tables()
    ok = {t["handle"] for t in prog["tables"]}
    # REF (sql mode) tells which steps the documentation rejects
    rf = drive.RefRun(prog, "sql")
    rf.setup_tables()
    ref_ok = set(ok)
    for i, st in enumerate(prog["steps"]):
        if st["in"] not in ok or ("right" in st and st["right"] not in ok):
            continue
        if st["verb"] == "collect":
            run.counters[f"collect_not_followed:{kind}"] += 1
            continue  # collect executes the query and yields a Polars table: execution belongs to C01/C12/C20, this check compiles
        ref_rejects = False
        real_exc = None
        try:
            rr.env[st["out"]] = rr.apply(st)
            ok.add(st["out"])
        except Exception as e:  # noqa: BLE001
            real_exc = e
        if st["in"] in ref_ok and ("right" not in st or st["right"] in ref_ok):
            try:
                rn = None
                if st["verb"] == "join" and real_exc is None:
                    import pydiverse.transform as pdt

                    ln = rr.env[st["in"]] >> pdt.columns()
                    rn = (rr.env[st["out"]] >> pdt.columns())[len(ln):]
                    if len(rn) != len(rf.env[st["right"]].vis):
                        rn = None
                rf.env[st["out"]] = rf.apply(st, right_names=rn) if st["verb"] == "join" else rf.apply(st)
                ref_ok.add(st["out"])
            except ref.RefReject:
                ref_rejects = True
            except Exception:
                ref_rejects = True  # REF cannot follow (e.g. a reference to a name the real join chose differently): not judged
        if real_exc is not None:
            e = real_exc
            cls = type(e).__name__
            if cls in PERMITTED:
                run.counters[f"refused:{kind}:{cls}"] += 1
            elif ref_rejects or st["in"] not in ref_ok:
                run.counters[f"rejected_at_verb:{kind}"] += 1
            else:
                f = Finding("exc:" + kind, kind, i, f"verb raised {cls}: {str(e)[:300]}", verb=st["verb"], exc=cls)
                yield f
    # handles downstream of a collect() are Polars tables: build_query is documented to return None there
    local = set()
    for st in prog["steps"]:
        if st["verb"] == "collect" or st["in"] in local:
            local.add(st["out"])
    for h in prog.get("probes", []):
        if h not in ok or h in local:
            continue
        texts = []
        for _ in range(2):
            try:
                texts.append(rr.build_query(h))
            except Exception as e:  # noqa: BLE001
                texts.append(e)
        run.counters[f"build_query_calls:{kind}"] += 2
        t0 = texts[0]
        if isinstance(t0, Exception):
            cls = type(t0).__name__
            if cls in PERMITTED:
                run.counters[f"refused:{kind}:{cls}"] += 1
            else:
                yield Finding("exc:" + kind, kind, h, f"build_query raised {cls}: {str(t0)[:300]}", verb="build_query", exc=cls)
            continue
        run.counters[f"statements:{kind}"] += 1
        for p in one_statement_problems(t0):
            yield Finding("statement:" + kind, kind, h, p + ": " + t0[:200], verb="build_query")
        if isinstance(texts[1], Exception) or texts[1] != t0:
            yield Finding("nondeterministic:" + kind, kind, h, f"second build_query differs: {str(texts[1])[:200]} vs {t0[:200]}", verb="build_query")
    for v in M.SAN.drain():
        if v["inv"].startswith("C19"):
            yield Finding("san:" + v["inv"], kind, None, v["detail"], verb=v["verb"])


# ---- operator sweep ---------------------------------------------------------------------------

CONCRETE = {
    "Int": ["Int64"], "Float": ["Float64"], "String": ["String"], "Bool": ["Bool"], "Date": ["Date"], "Datetime": ["Datetime"],
    "Duration": ["Duration"], "Time": ["Time"],
}  # fmt: skip
TYVAR_TYPES = ["Int64", "Float64", "String", "Bool", "Date", "Datetime"]
COLNAME = {"Int64": "i", "Float64": "f", "String": "s", "Bool": "b", "Date": "d", "Datetime": "ts", "Duration": "du", "Time": "tm", "Int32": "i32"}
LITVAL = {"Int64": 2, "Float64": 1.5, "String": "a", "Bool": True, "Date": "date", "Datetime": "datetime", "Duration": "duration", "Time": "time"}


def sweep_tables():
    import datetime as dt

    import polars as pl
    import sqlalchemy as sqa

    import pydiverse.transform as pdt

    data = {
        "k": [1, 2, 3], "i": [3, -1, None], "f": [0.5, -2.25, None], "s": ["a", "b%", None], "b": [True, False, None],
        "d": [dt.date(2020, 2, 29), dt.date(1999, 12, 31), None], "ts": [dt.datetime(2020, 2, 29, 13, 45, 10), dt.datetime(1999, 12, 31, 23, 59, 59), None],
        "du": [dt.timedelta(days=1, hours=2), dt.timedelta(seconds=5), None], "tm": [dt.time(1, 2, 3), dt.time(23, 59, 59), None],
    }  # fmt: skip
    df = pl.DataFrame(data)
    tabs = {"pol": pdt.Table(df, name="t")}
    cols = [sqa.Column("k", sqa.BigInteger), sqa.Column("i", sqa.BigInteger), sqa.Column("f", sqa.Double), sqa.Column("s", sqa.String),
            sqa.Column("b", sqa.Boolean), sqa.Column("d", sqa.Date), sqa.Column("ts", sqa.DateTime), sqa.Column("du", sqa.Interval), sqa.Column("tm", sqa.Time)]
    for kind in DIALECTS:
        be = drive.Backend(kind)
        md = sqa.MetaData()
        tb = sqa.Table("t", md, *[sqa.Column(c.name, c.type) for c in cols])
        if kind == "sqlite":
            with M.SQL.setup():
                with be.engine.begin() as conn:
                    md.create_all(conn)
                    rows = [dict(zip(data.keys(), r)) for r in zip(*data.values())]
                    conn.execute(tb.insert(), rows)
        try:
            tabs[kind] = pdt.Table(tb, pdt.SqlAlchemy(be.engine), name="t")
        except Exception as e:  # noqa: BLE001
            tabs[kind] = e
    return tabs


def lit_of(tname):
    import datetime as dt

    v = LITVAL[tname]
    return {"date": dt.date(2020, 1, 1), "datetime": dt.datetime(2020, 1, 1, 1, 1, 1), "duration": dt.timedelta(hours=3), "time": dt.time(1, 1, 1)}.get(v, v)


def instantiate(sig):
    """Concrete argument type lists for one declared signature (type variables -> several types)."""
    from pydiverse.transform._internal.tree import types

    slots = []
    has_tyvar = False
    for p in sig.types:
        base = types.without_const(p)
        n = type(base).__name__
        if n == "Tyvar":
            has_tyvar = True
            slots.append(("S", types.is_const(p)))
        elif n == "List":
            return []
        else:
            slots.append((n, types.is_const(p)))
    outs = []
    for tv in TYVAR_TYPES if has_tyvar else [None]:
        combo = []
        okc = True
        for n, isc in slots:
            t = tv if n == "S" else (CONCRETE.get(n) or [None])[0]
            if t is None:
                okc = False
                break
            combo.append((t, isc))
        if okc:
            outs.append(combo)
    return outs


def operator_sweep(run):
    import pydiverse.transform as pdt
    from pydiverse.transform._internal.ops.op import Ftype
    from pydiverse.transform._internal.ops.ops.markers import Marker
    from pydiverse.transform._internal.tree.col_expr import ColFn

    from . import c13

    tabs = sweep_tables()
    for kind, t in tabs.items():
        if isinstance(t, Exception):
            run.finding(Finding("exc:" + kind, kind, None, f"cannot construct a table on dialect {kind}: {type(t).__name__}: {t}", exc=type(t).__name__, extra={"feature": None}), None)
    n = 0
    for name, op in c13.all_operators():
        if isinstance(op, Marker) or op.name == "rand":
            continue
        for sig in op.signatures:
            for combo in instantiate(sig):
                if sig.is_vararg:
                    combo = combo + [combo[-1]]
                n += 1
                label = f"{name}({', '.join(('const ' if c else '') + t for t, c in combo)})"
                for kind, t in tabs.items():
                    if isinstance(t, Exception):
                        continue
                    args = []
                    for tn, isc in combo:
                        args.append(lit_of(tn) if isc else t[COLNAME[tn]])
                    if op.name == "str.contains" and len(args) == 4:
                        args[2], args[3] = False, False
                    ck = {c.name: c for c in op.context_kwargs}
                    base = {}
                    if "arrange" in ck and (ck["arrange"].required or op.ftype == Ftype.WINDOW):
                        base["arrange"] = [t.k]
                    # every optional context argument once on its own and all together
                    variants = [base]
                    extra = {}
                    if "arrange" in ck and "arrange" not in base:
                        extra["arrange"] = [t.i.descending().nulls_last(), t.k]
                    if "filter" in ck:
                        extra["filter"] = [t.b]
                    if "partition_by" in ck:
                        extra["partition_by"] = [t.s]
                    for k2, v2 in extra.items():
                        variants.append(base | {k2: v2})
                    if len(extra) > 1:
                        variants.append(base | extra)
                    for kw in variants:
                        if kw is not base:
                            run.counters["context_kwarg_variants"] += 1
                        try:
                            e = ColFn(op, *args, **kw)
                            if op.ftype == Ftype.AGGREGATE and "partition_by" not in kw:
                                q = t >> pdt.summarize(y=e)
                            else:
                                q = t >> pdt.mutate(y=e)
                            if kind == "pol":
                                # build the LazyFrame without collecting it: the implementation lookup and the
                                # compilation run, data-dependent engine errors stay out (they belong to C03/C14)
                                q >> pdt.export(pdt.Polars(lazy=True))
                            else:
                                txt = q >> pdt.build_query()
                                for p in one_statement_problems(txt):
                                    run.finding(Finding("statement:" + kind, kind, None, f"{label}: {p}", extra={"feature": None}), None)
                            run.counters[f"op_ok:{kind}"] += 1
                        except Exception as ex:  # noqa: BLE001
                            cls = type(ex).__name__
                            if cls == "NotSupportedError":
                                run.counters[f"op_not_supported:{kind}"] += 1
                            else:
                                feat = op_feature(op, combo, kind, cls, str(ex))
                                run.finding(Finding("op:" + kind, kind, None, f"{label}{sorted(kw)} on {kind}: {cls}: {str(ex)[:220]}", exc=cls, extra={"feature": feat}), None)
                        for v in M.SAN.drain():
                            if v["inv"].startswith("C19"):
                                run.finding(Finding("san:" + v["inv"], kind, None, f"{label}: {v['detail']}", extra={"feature": op_feature(op, combo, kind, "None", "")}), None)
                run.case(shape=("op", label), nontrivial=True, sample=({"operator_call": label, "backends": list(tabs)} if n % 80 == 1 else None))
    run.counters["operator_signatures_swept"] += n


def op_feature(op, combo, kind, cls, msg):
    types_ = {t for t, _ in combo}
    if op.name.startswith("dur.") and kind == "postgres":
        return "postgres_dur_impl_returns_none"
    return f"op:{op.name}:{kind}:{cls}"


def column_type_zoo(run):
    """Source tables with every column type SQLAlchemy offers (generic, PostgreSQL and SQL Server specific): the Table
    constructor may reject a type (TypeError / NotSupportedError); an accepted table must compile in a pipeline
    that selects, filters, copies and re-roots the column."""
    import sqlalchemy as sqa
    from sqlalchemy.dialects import mssql as ms
    from sqlalchemy.dialects import postgresql as pg

    import pydiverse.transform as pdt

    from .. import env as _env

    zoo = {
        "SmallInteger": sqa.SmallInteger(), "Integer": sqa.Integer(), "BigInteger": sqa.BigInteger(), "Float": sqa.Float(), "Float(24)": sqa.Float(24),
        "Double": sqa.Double(), "REAL": sqa.REAL(), "Numeric": sqa.Numeric(), "Numeric(10,2)": sqa.Numeric(10, 2), "DECIMAL(38,10)": sqa.DECIMAL(38, 10),
        "String": sqa.String(), "String(10)": sqa.String(10), "Text": sqa.Text(), "Unicode": sqa.Unicode(), "CHAR(3)": sqa.CHAR(3), "Boolean": sqa.Boolean(),
        "Date": sqa.Date(), "DateTime": sqa.DateTime(), "DateTime(tz)": sqa.DateTime(timezone=True), "Time": sqa.Time(), "Interval": sqa.Interval(),
        "LargeBinary": sqa.LargeBinary(), "Enum": sqa.Enum("a", "b", name="e"), "JSON": sqa.JSON(), "Uuid": sqa.Uuid(), "ARRAY(Integer)": sqa.ARRAY(sqa.Integer),
        "ARRAY(String)": sqa.ARRAY(sqa.String), "ARRAY(Integer, 2)": sqa.ARRAY(sqa.Integer, dimensions=2), "ARRAY(Date)": sqa.ARRAY(sqa.Date),
        "pg.JSONB": pg.JSONB(), "pg.TIMESTAMP": pg.TIMESTAMP(), "pg.DOUBLE_PRECISION": pg.DOUBLE_PRECISION(), "pg.SMALLINT": pg.SMALLINT(), "pg.INTERVAL": pg.INTERVAL(),
        "ms.BIT": ms.BIT(), "ms.TINYINT": ms.TINYINT(), "ms.DATETIME2": ms.DATETIME2(), "ms.MONEY": ms.MONEY(), "ms.NVARCHAR": ms.NVARCHAR(20), "ms.REAL": ms.REAL(),
        "NullType": sqa.types.NullType(),
    }  # fmt: skip
    C = pdt.C
    for kind in DIALECTS:
        eng = _env.sqlite_engine() if kind == "sqlite" else _env.offline_engine(kind)
        for name, ty in zoo.items():
            tb = sqa.Table("z", sqa.MetaData(), sqa.Column("k", sqa.BigInteger), sqa.Column("c", ty))
            run.case(shape=("column_type", kind, name), nontrivial=True)
            try:
                t = pdt.Table(tb, pdt.SqlAlchemy(eng), name="z")
            except Exception as e:  # noqa: BLE001
                cls = type(e).__name__
                if cls in ("TypeError", "NotSupportedError"):
                    run.counters[f"column_type_rejected:{kind}"] += 1
                else:
                    run.finding(Finding("coltype:" + kind, kind, None, f"Table() with a {name} column raised {cls}: {str(e)[:160]}", exc=cls, extra={"feature": None}), None)
                continue
            pipes = {
                "plain": lambda: t,
                "filter+copy": lambda: t >> pdt.filter(t.k > 0) >> pdt.mutate(c2=t.c),
                "subquery": lambda: t >> pdt.arrange(t.k) >> pdt.slice_head(3) >> pdt.alias() >> pdt.mutate(c2=C.c) >> pdt.filter(C.k > 1),
                "group": lambda: t >> pdt.group_by(t.k) >> pdt.summarize(n=pdt.count()) >> pdt.alias() >> pdt.join(t >> pdt.alias("z2"), "k", "left"),
                "union": lambda: t >> pdt.union(t >> pdt.filter(t.k > 3) >> pdt.alias("z3")),
            }
            for pn, f in pipes.items():
                try:
                    txt = f() >> pdt.build_query()
                    probs = one_statement_problems(txt)
                    for p in probs:
                        run.finding(Finding("statement:" + kind, kind, None, f"{name} column, {pn}: {p}", extra={"feature": None}), None)
                    run.counters[f"column_type_compiled:{kind}"] += 1
                except Exception as e:  # noqa: BLE001
                    cls = type(e).__name__
                    if cls in PERMITTED:
                        run.counters[f"refused:{kind}:{cls}"] += 1
                    else:
                        run.finding(Finding("coltype:" + kind, kind, None, f"{name} column, {pn} on {kind}: {cls}: {str(e)[:160]}", exc=cls, extra={"feature": None}), None)


def execute(run, prop, shard):
    run.extra["skipped_dialects"] = skipped_dialects()
    if shard is None or shard[0] == 0:
        operator_sweep(run)
        column_type_zoo(run)
    # (a) pipelines
    spec = pipeline.SPECS["C01"]
    n = 250 if run.tier == "quick" else 1200
    rng = random.Random(f"C19:{run.seed}:{run.tier}:{shard[0] if shard else 0}")
    cache = {}
    for i in range(n):
        fam = pipeline.pick_family(rng, spec["fams"])
        s = pipeline.case_seed(run.seed + 5, run.tier, shard[0] if shard else 0, i)
        try:
            prog = getattr(gen, "gen_" + fam)(s)
        except Exception:
            run.counters["generator_failures"] += 1
            continue
        run.case(prog)
        for kind in DIALECTS:
            for f in compile_program(run, prog, kind, cache):
                def still(q, f0=f, kind=kind):
                    return any(g.kind == f0.kind and g.exc == f0.exc for g in compile_program(run, q, kind, {}))

                run.finding(f, prog, owned=True, reshrink=still)
    # (c) directed corpora of other checks, compiled on all three dialects: the C03 operator catalogue (every
    #     operator form with literals / nested operands), the C12 sized-type family and the C18 literal programs
    if shard is None or shard[0] == (1 if shard[1] > 1 else 0):
        from . import c03

        corp = []
        for j, (label, prog) in enumerate(itertools.chain(c03.cases(run.tier, run.seed), c03.random_nested("quick", run.seed))):
            if run.tier == "thorough" or j % 3 == run.seed % 3:
                corp.append((("c03", label), prog))
        for j, prog in enumerate(c18.numeric_literal_programs()):
            if run.tier == "thorough" or j % 4 == run.seed % 4:
                corp.append((("c18num", j), prog))
        for j in range(40 if run.tier == "quick" else 400):
            try:
                corp.append((("types", j), gen.gen_types(pipeline.case_seed(run.seed + 9, run.tier, 0, j))))
            except Exception:
                run.counters["generator_failures"] += 1
        for j in range(60 if run.tier == "quick" else 500):
            try:
                corp.append((("collide", j), gen.gen_collide(pipeline.case_seed(run.seed + 13, run.tier, 0, j))))
            except Exception:
                run.counters["generator_failures"] += 1
        for j in range(60 if run.tier == "quick" else 500):
            try:
                corp.append((("subq_edges", j), gen.gen_subq_edges(pipeline.case_seed(run.seed + 17, run.tier, 0, j))))
            except Exception:
                run.counters["generator_failures"] += 1
        # eval_aligned forms (values of a Polars table / Series inside an expression over a SQL table): accepted by the
        # verbs, so build_query has to answer with a statement or NotSupportedError
        from .. import aligned

        for j in range(40 if run.tier == "quick" else 250):
            try:
                corp.append((("aligned", j), aligned.gen_aligned(pipeline.case_seed(run.seed + 19, run.tier, 0, j))))
            except Exception:  # noqa: BLE001
                run.counters["generator_failures"] += 1
        for tag, prog in corp:
            run.case(prog, shape=("corpus",) + tuple(map(str, tag)))
            run.counters[f"corpus_programs:{tag[0]}"] += 1
            for kind in DIALECTS:
                for f in compile_program(run, prog, kind, cache):
                    def still(q, f0=f, kind=kind):
                        return any(g.kind == f0.kind and g.exc == f0.exc for g in compile_program(run, q, kind, {}))

                    run.finding(f, prog, owned=True, reshrink=still)
    for kind in DIALECTS:
        run.inconclusive_if(shard is None and run.counters[f"statements:{kind}"] < 50, f"fewer than 50 statements compiled on {kind}")


def finalize(run, prop):
    return run.finish(
        "generated pipelines (C01 families) x {SQLite, PostgreSQL, SQL Server}: build_query twice per probe -> one SELECT (quote-aware lexer), "
        "identical text, or NotSupportedError/SubqueryError; all operators x declared signatures (type variables instantiated with 6 types) x "
        "{Polars export, SQLite export, PostgreSQL / SQL Server build_query} -> implementation or NotSupportedError. distinct = distinct program "
        "shapes + distinct operator signatures",
        pipeline.ASSUME_COMMON + ["PostgreSQL / SQL Server engines are bound to a stub DBAPI module: statements are compiled and lexed, not executed",
                                  "DuckDB / DB2 dialect plugins are not importable here and are skipped (see skipped_dialects)"],
    )


def thorough_timeout(prop):
    return 1500


def replay(prop, path):
    d = json.load(open(path))
    if d.get("program"):
        print(render.program(d["program"]))

        class R:
            counters = __import__("collections").Counter()

        bad = []
        for kind in DIALECTS:
            for f in compile_program(R, d["program"], kind, {}):
                print(f.brief())
                bad.append(f)
        if bad:
            print(f"VIOLATION property={prop} replay={path}")
            return 1
        return 0
    print(d)
    return 1
