from __future__ import annotations

import json

from .. import render, runner
from . import pipeline

SHARDED = True


def thorough_timeout(prop):
    return 1500


def execute(run, prop, shard):
    spec = pipeline.SPECS[prop]
    n = spec["quick"] if run.tier == "quick" else spec["thorough"]
    pipeline.run(run, prop, n, shard_index=(shard[0] if shard else 0))


def finalize(run, prop):
    return pipeline.finalize(run, prop)


def replay(prop, path):
    d = json.load(open(path))
    prog = d["program"]
    print(render.program(prog))
    out = runner.run_program(prog, opts={"reexport_every": 1})
    spec = pipeline.SPECS[prop]
    from .. import kf

    # the probes that run beside the program in the check itself (their findings are replayable, too)
    import collections
    import types

    stub = types.SimpleNamespace(counters=collections.Counter())
    if prop == "C09":
        pipeline.name_probe(stub, prog, out)
    if prop in ("C10", "C11"):
        pipeline.print_probe(stub, prog, out, prop)
    if "aligned" in prog.get("meta", {}):
        from .. import aligned

        finds, verdict = aligned.check_program(prog, stub.counters)
        print("eval_aligned pair:", verdict)
        if verdict == "judged":
            out.findings.extend(finds)
    if stub.counters:
        print("probe counters:", dict(stub.counters))
    entries = kf.load()
    bad = []
    for f in out.findings:
        if not pipeline.owned_by(spec, f):
            print("other " + f.brief())
            continue
        e = kf.classify(entries, prop, f, prog, None)
        if e is not None:
            print(f"KNOWN-FINDING: property={prop} {e['id']} " + f.brief())
        else:
            print("OWNED " + f.brief())
            bad.append(f)
    if bad:
        print(f"VIOLATION property={prop} replay={path}")
        return 1
    print(f"{prop}: replay shows no owned finding")
    return 0
