from __future__ import annotations

import json

from .. import render, runner
from . import pipeline

SHARDED = True


def thorough_timeout(prop):
    return 1500


def execute(run, prop, shard):
    spec = pipeline.SPECS[prop]
    n = spec["quick"] if run.tier == "quick" else spec["thorough"]
    pipeline.run(run, prop, n, shard_index=(shard[0] if shard else 0))


def finalize(run, prop):
    return pipeline.finalize(run, prop)


def replay(prop, path):
    d = json.load(open(path))
    prog = d["program"]
    print(render.program(prog))
    out = runner.run_program(prog, opts={"reexport_every": 1})
    spec = pipeline.SPECS[prop]
    bad = [f for f in out.findings if pipeline.owned_by(spec, f)]
    for f in out.findings:
        print(("OWNED " if f in bad else "other ") + f.brief())
    if bad:
        print(f"VIOLATION property={prop} replay={path}")
        return 1
    print(f"{prop}: replay shows no owned finding")
    return 0
