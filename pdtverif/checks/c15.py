"""C15 — equivalent pipelines give identical results (metamorphic).

For each documented equivalence a pair generator instantiates both sides from one random prefix /
expression / input inside ONE program (a DAG with two branches).  Both branches are executed on the real
backends; the two exports must be equal (sequence when REF's ordering record says both orders are defined,
multiset otherwise).  REF is only needed to taint (DESIGN section 4) and to tell which side is wrong.
"""

from __future__ import annotations

import json
import random

from .. import compare, gen, ref, render, runner
from ..runner import Finding
from . import pipeline

SHARDED = True


def pair_findings(prog, out):
    a, b = prog["meta"]["pair"]
    eq = prog["meta"]["equivalence"]
    for be in ("pol", "sqlite"):
        fa, fb = out.frames.get((be, a)), out.frames.get((be, b))
        env = out.ref_env.get(be, {})
        okset = out.ref_ok.get(be, ())
        if fa is None or fb is None:
            if be in out.excluded or not all(h in (prog.get("probes") or ()) for h in (a, b)):
                continue  # an engine / domain exclusion took one export away (or a side is not probed): nothing to compare
            if (fa is None) != (fb is None) and be == "pol":
                yield Finding("equiv:" + be, be, a if fa is None else b, f"{eq}: only one side of the equivalence could be built / exported on {be}", verb="export")
            continue
        if a not in okset or b not in okset or be in out.excluded:
            continue  # REF left the defined domain on one side: not judged
        ra, rb = env[a], env[b]
        if any(v is ref.TAINT for t in (ra, rb) for c in t.cols.values() for v in c.data):
            continue
        mode = "pol" if be == "pol" else "sql"
        ordered = ra.seq_ok(mode) and rb.seq_ok(mode)
        if eq == "union_swap":
            fb = fb.select(fa.columns) if set(fa.columns) == set(fb.columns) else fb
            ordered = False
        p = compare.frames_equal(fa, fb, ordered)
        yield ("judged", ordered)
        if p:
            yield Finding("equiv:" + be, be, None, f"{eq}: the two sides ({a} vs {b}) differ on {be}: {p}", verb="export", extra={"ordered": ordered})


def composed_findings(prog, out, backends=None):
    """`t >> (v1 >> v2 >> ... >> vn)` (the verbs composed into one pipeable first) must give what `t >> v1 >> ... >> vn` gives."""
    from pydiverse.transform._internal.pipe.pipeable import Pipeable

    import pydiverse.transform as pdt

    from .. import drive

    meta = prog["meta"]["composed"]
    h0, last = meta["source"], meta["last"]
    for be, renv in out.real_env.items():
        fa = out.frames.get((be, last))
        if fa is None or be in out.excluded or last not in out.ref_ok.get(be, ()):
            continue
        rt = out.ref_env[be][last]
        if any(v is ref.TAINT for c in rt.cols.values() for v in c.data):
            continue
        rr = drive.RealRun(prog, None, share=False)
        rr.env[h0] = Pipeable(calls=[])
        try:
            for st in prog["steps"]:
                if st["in"] in rr.env:
                    rr.env[st["out"]] = rr.apply(st)
            composed = rr.env[last]
            assert isinstance(composed, Pipeable)
            fb = renv[h0] >> composed >> pdt.export(pdt.Polars())
        except (KeyboardInterrupt, SystemExit):
            raise
        except BaseException as e:  # noqa: BLE001
            yield Finding("equiv:" + be, be, last, f"precomposed_chain: applying the composed pipeable raised {type(e).__name__}: {str(e)[:200]}", verb="export", exc=type(e).__name__)
            continue
        mode = "pol" if be == "pol" else "sql"
        ordered = rt.seq_ok(mode)
        p = compare.frames_equal(fa, fb, ordered)
        yield ("judged", ordered)
        if p:
            yield Finding("equiv:" + be, be, None, f"precomposed_chain: t >> (v1 >> ... >> vn) differs from t >> v1 >> ... >> vn on {be}: {p}", verb="export", extra={"ordered": ordered})


def execute(run, prop, shard):
    n = 1000 if run.tier == "quick" else 3500
    si = shard[0] if shard else 0
    cache = {}
    # (k) the verbs of a chain composed into one pipeable before the table is piped in
    for i in range(n // 8):
        s = pipeline.case_seed(run.seed + 29, run.tier, si, i)
        try:
            prog = gen.gen_composed(s)
        except Exception:  # noqa: BLE001
            run.counters["generator_failures"] += 1
            continue
        out = runner.run_program(prog, opts={"reexport_every": 0}, be_cache=cache)
        run.case(prog)
        run.counters["pairs:precomposed_chain"] += 1
        for x in composed_findings(prog, out):
            if isinstance(x, tuple):
                run.counters["pairs_judged:" + ("sequence" if x[1] else "multiset")] += 1
                run.counters["precomposed_chains_judged"] += 1
                continue

            def still_c(q, f0=x):
                if "composed" not in q.get("meta", {}) or q["meta"]["composed"]["last"] not in {st["out"] for st in q["steps"]}:
                    return False
                oo = runner.run_program(q, opts={"reexport_every": 0})
                return any(not isinstance(g, tuple) and g.kind == f0.kind and g.exc == f0.exc and g.backend == f0.backend for g in composed_findings(q, oo))

            run.finding(x, prog, owned=True, reshrink=still_c)
    for i in range(n):
        s = pipeline.case_seed(run.seed + 23, run.tier, si, i)
        which = gen.EQUIVS[i % len(gen.EQUIVS)]
        try:
            prog = gen.gen_equiv(s, which)
        except RecursionError:
            run.counters["generator_failures"] += 1
            continue
        except Exception as e:  # noqa: BLE001
            run.counters["generator_failures"] += 1
            run.extra.setdefault("generator_failure_examples", [])
            if len(run.extra["generator_failure_examples"]) < 3:
                run.extra["generator_failure_examples"].append(f"{which}:{s}:{type(e).__name__}:{e}")
            continue
        out = runner.run_program(prog, opts={"reexport_every": 0}, be_cache=cache)
        run.case(prog)
        run.counters["pairs:" + prog["meta"]["equivalence"]] += 1
        for be, rule in out.excluded.items():
            run.counters[f"excluded_by_domain:{be}:{rule.split(':')[0]}"] += 1
        for be, (_st, cls) in out.refused.items():
            run.counters[f"refused:{be}:{cls}"] += 1
        fs = list(out.findings)
        for x in pair_findings(prog, out):
            if isinstance(x, tuple):
                run.counters["pairs_judged:" + ("sequence" if x[1] else "multiset")] += 1
            else:
                fs.append(x)
        for f in fs:
            if f.kind == "harness":
                run.counters["harness_problems"] += 1
                continue
            own = f.kind.startswith(("equiv:", "value:", "exc:"))

            def still(q, f0=f):
                outs = {st["out"] for st in q["steps"]}
                if "pair" not in q.get("meta", {}) or not all(h in outs and h in q.get("probes", ()) for h in q["meta"]["pair"]):
                    return False  # both sides of the equivalence must stay in the witness (as steps and as probes)
                oo = runner.run_program(q, opts={"reexport_every": 0})
                allf = list(oo.findings) + [y for y in pair_findings(q, oo) if not isinstance(y, tuple)]
                return any(g.kind == f0.kind and g.exc == f0.exc and g.backend == f0.backend for g in allf)

            run.finding(f, prog, owned=own, reshrink=still, ctx={"ref": out.ref_env.get(f.backend if f.backend in out.ref_env else "pol"), "real": out.real_env.get(f.backend if f.backend in out.real_env else "pol")})
    j = run.counters["pairs_judged:sequence"] + run.counters["pairs_judged:multiset"]
    run.inconclusive_if(shard is None and j < n // 2, f"only {j} pairs were compared")


def finalize(run, prop):
    return run.finish(
        "10 documented equivalences (mutate split, filter split, group_by/arrange verbs vs partition_by=/arrange= kwargs, drop vs select of the "
        "complement, rename and inverse, slice chain vs combined slice, inner join vs cross join + filter, map vs when/then chain, is_in vs ==|==, "
        "union with swapped operands; plus: a chain of verbs composed into one pipeable before the table is piped in), each instantiated from a random prefix pipeline / expression / input; both sides run on Polars and SQLite "
        "and their exports are compared with each other (and each with REF)",
        pipeline.ASSUME_COMMON,
    )


def thorough_timeout(prop):
    return 1500


def replay(prop, path):
    d = json.load(open(path))
    prog = d["program"]
    print(render.program(prog))
    out = runner.run_program(prog, opts={"reexport_every": 0})
    fs = list(out.findings) + ([y for y in pair_findings(prog, out) if not isinstance(y, tuple)] if "pair" in prog.get("meta", {}) else [])
    if "composed" in prog.get("meta", {}):
        fs += [y for y in composed_findings(prog, out) if not isinstance(y, tuple)]
    bad = [f for f in fs if f.kind.startswith(("equiv:", "value:", "exc:"))]
    for f in fs:
        print(f.brief())
    if bad:
        print(f"VIOLATION property={prop} replay={path}")
        return 1
    return 0
