"""property id -> module implementing execute(run, prop, shard) / finalize(run, prop) / replay(prop, path)."""

import importlib

MODULES = {
    "C03": "c03",
    "C08": "c08",
    "C13": "c13",
    "C14": "c14",
    "C15": "c15",
    "C17": "c17",
    "C18": "c18",
    "C19": "c19",
    "C20": "c20",
    **{p: "pipeline_entry" for p in ("C01", "C02", "C04", "C05", "C06", "C07", "C09", "C10", "C11", "C12", "C16")},
}


def module_for(prop):
    name = MODULES.get(prop)
    if name is None:
        raise SystemExit(f"no check registered for {prop}")
    return importlib.import_module("pdtverif.checks." + name)
