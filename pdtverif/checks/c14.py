"""C14 — ill-formed pipelines are rejected when built, with the documented error.

Rule table (one entry per rejection rule of the property statement) x syntactic positions x accepted
prefix histories x {Polars, SQLite}.  The offending constructs are built through the public API by small
closures (they are not expressible as well-typed programs by construction).  Oracle O-EXC: the verb
call itself raises, the class is the documented one, it is the same on all four backends (Polars, SQLite, and PostgreSQL / SQL Server tables bound to a stub DBAPI), and the input
table is unchanged and still exports to the same frame (I14).  Converse: generated accepted pipelines
export on Polars without an internal error (shared pipeline loop, findings exc:pol / accept / excls).
"""

from __future__ import annotations

import random

from .. import compare, drive
from .. import monitors as M
from ..runner import Finding
from . import pipeline

SHARDED = False
INTERNAL = {"AssertionError", "KeyError", "AttributeError", "IndexError", "RecursionError", "NameError", "UnboundLocalError", "ZeroDivisionError"}

TSPEC = {
    "handle": "T0", "name": "t",
    "schema": [["k", "Int64"], ["g", "Int64"], ["x", "Int64"], ["y", "Int64"], ["f", "Float64"], ["b", "Bool"], ["s", "String"], ["d", "Date"]],
    "rows": [[1, 1, 5, 2, 0.5, True, "a", "2020-02-29"], [2, 1, None, 3, 1.25, None, "b", "2021-07-15"], [3, 2, 7, None, None, False, None, None],
             [4, 2, 7, 1, -2.0, True, "a%", "1999-12-31"]],
}  # fmt: skip
USPEC = {
    "handle": "U0", "name": "u",
    "schema": [["k", "Int64"], ["g", "Int64"], ["x2", "Int64"], ["s2", "String"]],
    "rows": [[1, 1, 10, "p"], [2, 2, 20, "q"], [5, 3, 30, None]],
}  # fmt: skip


# ---- positions: wrap an offending sub-expression `bad` (built lazily) into a host expression ----------
def positions(kind):
    """kind: the static family the offending expression *pretends* to have (for hosts that need a type)."""
    import pydiverse.transform as pdt

    P = [("top", lambda bad, t: bad())]
    if kind in ("int", "float"):
        P += [
            ("arith", lambda bad, t: bad() + 1),
            ("arith_r", lambda bad, t: t.x * (2 - bad())),
            ("case_branch", lambda bad, t: pdt.when(t.b).then(bad()).otherwise(0)),
            ("case_cond", lambda bad, t: pdt.when(bad() > 0).then(1).otherwise(0)),
            ("partition_by", None),
            ("agg_arg", lambda bad, t: (bad()).sum()),
            ("filter_kw", lambda bad, t: t.x.sum(filter=bad() > 0)),
            ("arrange_kw", lambda bad, t: t.x.shift(1, arrange=bad())),
            ("horizontal", lambda bad, t: pdt.max(t.x, bad())),
        ]
    if kind == "bool":
        P += [
            ("and", lambda bad, t: bad() & t.b),
            ("invert", lambda bad, t: ~bad()),
            ("case_cond", lambda bad, t: pdt.when(bad()).then(1).otherwise(0)),
            ("filter_kw", lambda bad, t: t.x.sum(filter=bad())),
        ]
    if kind == "str":
        P += [("concat", lambda bad, t: bad() + "x"), ("case_branch", lambda bad, t: pdt.when(t.b).then(bad()).otherwise("z"))]
    return [(n, f) for n, f in P if f is not None]


def rules():
    """(rule id, family of the offending expression, expected classes, builder(t, u, C) -> expression) for
    expression-level rules; verb-level rules are listed in verb_rules()."""
    import pydiverse.transform as pdt

    E = []
    DT, FT, TE = {"DataTypeError"}, {"FunctionTypeError"}, {"TypeError"}
    # 1 type errors
    E += [
        ("type:int+str", "int", DT, lambda t, u, C: t.x + t.s),
        ("type:int+str:C", "int", DT, lambda t, u, C: C.x + C.s),
        ("type:neg_str", "int", DT, lambda t, u, C: -t.s),
        ("type:bool&int", "bool", DT, lambda t, u, C: t.b & t.x),
        ("type:str_len_of_int", "int", DT, lambda t, u, C: t.x.str.len()),
        ("type:date+int", "int", DT, lambda t, u, C: C.d + 1),
        ("type:cmp_str_int", "bool", DT, lambda t, u, C: t.s > t.x),
        ("type:floor_str", "float", DT, lambda t, u, C: C.s.floor()),
        ("type:when_nonbool", "int", DT, lambda t, u, C: pdt.when(t.x).then(1).otherwise(2)),
        ("type:when_nonbool:C", "int", DT, lambda t, u, C: pdt.when(C.x).then(1).otherwise(2)),
        ("type:case_incompatible", "int", DT, lambda t, u, C: pdt.when(t.b).then(t.x).otherwise(t.s)),
        ("type:is_in_mixed", "bool", DT, lambda t, u, C: t.x.is_in("a", 1)),
        ("type:sum_str", "int", DT, lambda t, u, C: C.s.sum()),
        # 13 bad casts
        ("cast:str->date", "int", DT, lambda t, u, C: t.s.cast(pdt.Date()).dt.year()),
        ("cast:bool->str", "str", DT, lambda t, u, C: t.b.cast(pdt.String())),
        ("cast:date->int:C", "int", DT, lambda t, u, C: C.d.cast(pdt.Int64())),
        # 14 const parameter violations
        ("const:contains_col", "bool", DT, lambda t, u, C: t.s.str.contains(t.s)),
        ("const:round_col", "int", DT, lambda t, u, C: t.x.round(t.y)),
        ("const:clip_col", "int", DT, lambda t, u, C: C.x.clip(C.g, 3)),
        ("const:shift_col", "int", DT, lambda t, u, C: t.x.shift(t.y, arrange=t.k)),
        # 4 nested aggregate / window
        ("nest:agg(agg)", "int", FT, lambda t, u, C: t.x.sum().max()),
        ("nest:agg(agg):C", "int", FT, lambda t, u, C: (C.x.sum() + 1).mean()),
        ("nest:win(win)", "int", FT, lambda t, u, C: t.x.shift(1, arrange=t.k).cum_sum(arrange=t.k)),
        ("nest:agg(win)", "int", FT, lambda t, u, C: pdt.row_number(arrange=t.k).sum()),
        ("nest:win_arrange(agg)", "int", FT, lambda t, u, C: pdt.rank(arrange=t.x.max())),
        # 11 markers outside arrange
        ("marker:desc_top", "int", TE, lambda t, u, C: t.x.descending()),
        ("marker:nulls_last_nested", "int", TE, lambda t, u, C: t.x.nulls_last() + 1),
        ("marker:nulls_first:C", "int", TE, lambda t, u, C: (C.x.nulls_first()) * 2),
        ("marker:in_agg", "int", TE, lambda t, u, C: t.x.descending().sum()),
        # 6 unknown / foreign columns
        ("col:unknown_C", "int", {"ColumnNotFoundError"}, lambda t, u, C: C.nope + 1),
        ("col:foreign", "int", {"ColumnNotFoundError"}, lambda t, u, C: u.x2 + 1),
    ]
    return E


def hosts():
    """Verbs that host an expression: (name, fn(tbl, expr, fam) -> pipeable result, fams allowed)."""
    import pydiverse.transform as pdt

    def as_bool(e, fam):
        if fam == "bool":
            return e
        if fam == "str":
            return e == "a"
        return e > 0

    return [
        ("mutate", lambda tb, e, fam: tb >> pdt.mutate(z=e)),
        ("filter", lambda tb, e, fam: tb >> pdt.filter(as_bool(e, fam))),
        ("arrange", lambda tb, e, fam: tb >> pdt.arrange(e)),
        ("summarize", lambda tb, e, fam: tb >> pdt.summarize(z=(e if False else e))),
    ]


def prefixes():
    import pydiverse.transform as pdt

    return [
        ("identity", lambda t: t),
        ("mutate", lambda t: t >> pdt.mutate(zz=t.x + 1)),
        ("filter", lambda t: t >> pdt.filter(t.k > 0)),
        ("arrange", lambda t: t >> pdt.arrange(t.k.descending())),
        ("select_hide_y", lambda t: t >> pdt.select(t.k, t.g, t.x, t.f, t.b, t.s, t.d)),
        ("rename", lambda t: t >> pdt.rename({"f": "f_r"})),
        ("alias_keep", lambda t: t >> pdt.alias(keep_col_refs=True)),
        ("group_by", lambda t: t >> pdt.group_by(t.g)),
        ("mutate_overwrite", lambda t: t >> pdt.mutate(y=t.y * 2)),
    ]


def verb_rules():
    """Verb-level rejection rules: (id, expected classes, fn(tb, t, u, other) -> result). `tb` is the table
    after the prefix, `t` the source table (references), `u` a second table of the same backend,
    `other` a table of the *other* backend."""
    import pydiverse.transform as pdt

    C = pdt.C
    V, CN, TE, DT, FT = {"ValueError"}, {"ColumnNotFoundError"}, {"TypeError"}, {"DataTypeError"}, {"FunctionTypeError"}
    return [
        # 2 non-boolean predicates
        ("filter:nonbool", DT, lambda tb, t, u, o: tb >> pdt.filter(t.x)),
        ("filter:nonbool:C", DT, lambda tb, t, u, o: tb >> pdt.filter(C.s)),
        ("filter:nonbool:expr", DT, lambda tb, t, u, o: tb >> pdt.filter(t.x + 1)),
        ("filter:nonbool:second", DT, lambda tb, t, u, o: tb >> pdt.filter(t.b, t.f)),
        ("on:nonbool", DT, lambda tb, t, u, o: tb >> pdt.join(u, t.x + u.x2, "inner")),
        # 3 window / aggregate functions in filter / summarize / on
        ("filter:window", FT, lambda tb, t, u, o: tb >> pdt.filter(pdt.row_number(arrange=t.k) > 1)),
        ("filter:window:nested", FT, lambda tb, t, u, o: tb >> pdt.filter((t.x.shift(1, arrange=t.k) > 1) & t.b)),
        ("filter:aggregate", FT, lambda tb, t, u, o: tb >> pdt.filter(t.x.sum() > 3)),
        ("filter:aggregate:case", FT, lambda tb, t, u, o: tb >> pdt.filter(pdt.when(t.b).then(t.x.max()).otherwise(0) > 3)),
        ("summarize:window", FT, lambda tb, t, u, o: tb >> pdt.summarize(z=pdt.row_number(arrange=t.k))),
        ("summarize:window:nested", FT, lambda tb, t, u, o: tb >> pdt.summarize(z=t.x.sum() + t.x.cum_sum(arrange=t.k))),
        ("on:window", FT, lambda tb, t, u, o: tb >> pdt.join(u, pdt.row_number(arrange=t.k) == u.k, "inner")),
        ("on:aggregate", FT, lambda tb, t, u, o: tb >> pdt.join(u, t.x.max() == u.k, "left")),
        # 5 non-aggregated non-grouping column in summarize
        ("summarize:bare_col", FT, lambda tb, t, u, o: tb >> pdt.summarize(z=t.x)),
        ("summarize:bare_col:C", FT, lambda tb, t, u, o: tb >> pdt.summarize(z=C.x)),
        ("summarize:bare_col:mixed", FT, lambda tb, t, u, o: tb >> pdt.summarize(z=t.x + t.f.sum())),
        ("summarize:bare_col:case", FT, lambda tb, t, u, o: tb >> pdt.summarize(z=pdt.when(t.b.any()).then(t.x).otherwise(0))),
        ("summarize:empty_ungrouped", V, None),  # only without grouping: handled below
        # 6 unknown / hidden / foreign columns
        ("select:unknown_str", CN, lambda tb, t, u, o: tb >> pdt.select("nope")),
        ("select:unknown_C", CN, lambda tb, t, u, o: tb >> pdt.select(C.nope)),
        ("select:foreign", CN, lambda tb, t, u, o: tb >> pdt.select(u.x2)),
        ("drop:unknown", CN, lambda tb, t, u, o: tb >> pdt.drop(C.nope)),
        ("mutate:unknown_C", CN, lambda tb, t, u, o: tb >> pdt.mutate(z=C.nope)),
        ("mutate:foreign", CN, lambda tb, t, u, o: tb >> pdt.mutate(z=u.x2)),
        ("filter:unknown_C", CN, lambda tb, t, u, o: tb >> pdt.filter(C.nope > 1)),
        ("arrange:unknown_C", CN, lambda tb, t, u, o: tb >> pdt.arrange(C.nope)),
        ("arrange:unknown_str", CN, lambda tb, t, u, o: tb >> pdt.arrange("nope")),
        ("group_by:unknown_C", CN, lambda tb, t, u, o: tb >> pdt.group_by(C.nope)),
        ("group_by:foreign", CN | V, lambda tb, t, u, o: tb >> pdt.group_by(u.x2)),
        ("summarize:unknown_C", CN, lambda tb, t, u, o: tb >> pdt.summarize(z=C.nope.sum())),
        ("rename:unknown", V | CN, lambda tb, t, u, o: tb >> pdt.rename({"nope": "z"})),
        ("getitem:unknown", CN, lambda tb, t, u, o: tb["nope"]),
        ("getattr:unknown", CN, lambda tb, t, u, o: tb.nope),
        ("on:unknown_str", V | CN, lambda tb, t, u, o: tb >> pdt.join(u, "nope", "inner")),
        ("on:foreign", V, lambda tb, t, u, o: tb >> pdt.join(u, t.k == o.k, "inner")),
        ("hidden:reselect", CN, lambda tb, t, u, o: (tb >> pdt.select(t.k)) >> pdt.select(t.x)),
        ("hidden:reselect_after_overwrite", CN, lambda tb, t, u, o: (tb >> pdt.mutate(x=t.x + 1)) >> pdt.select(t.x)),
        ("hidden:group_by", V, lambda tb, t, u, o: (tb >> pdt.select(t.k)) >> pdt.group_by(t.x)),
        ("hidden:rename", V | CN, lambda tb, t, u, o: (tb >> pdt.select(t.k)) >> pdt.rename({t.x: "z"})),
        ("cut:alias", CN, lambda tb, t, u, o: (tb >> pdt.alias()) >> pdt.mutate(z=t.x)),
        ("cut:summarize", CN, lambda tb, t, u, o: (tb >> pdt.summarize(m=t.x.max())) >> pdt.mutate(z=t.x)),
        # 7 duplicate names through rename
        ("rename:dup_existing", V, lambda tb, t, u, o: tb >> pdt.rename({"k": "x"})),
        ("rename:dup_targets", V, lambda tb, t, u, o: tb >> pdt.rename({"k": "z", "g": "z"})),
        ("rename:dup_targets:col", V, lambda tb, t, u, o: tb >> pdt.rename({t.k: "z", "x": "z"})),
        # 8 duplicate names through a join suffix
        ("join:user_suffix_collision", V, lambda tb, t, u, o: (tb >> pdt.mutate(k_u=t.k)) >> pdt.join(u, t.k == u.k, "inner", suffix="_u")),
        # 9 grouped / same origin / different backend
        ("join:grouped_left", V, lambda tb, t, u, o: (tb >> pdt.group_by(t.g)) >> pdt.join(u, t.k == u.k, "inner")),
        ("join:grouped_right", V, lambda tb, t, u, o: tb >> pdt.join(u >> pdt.group_by(u.g), t.k == u.k, "left")),
        ("join:same_origin", V, lambda tb, t, u, o: tb >> pdt.join(t >> pdt.filter(t.k > 1), "k", "inner")),
        ("join:same_origin:keep_alias", V, lambda tb, t, u, o: tb >> pdt.join(t >> pdt.alias(keep_col_refs=True), "k", "inner")),
        ("join:other_backend", TE, lambda tb, t, u, o: tb >> pdt.join(o, t.k == o.k, "inner")),
        ("union:grouped_left", V, lambda tb, t, u, o: (tb >> pdt.select(t.k, t.g) >> pdt.group_by(t.g)) >> pdt.union(u >> pdt.select(u.k, u.g))),
        ("union:grouped_right", V, lambda tb, t, u, o: (tb >> pdt.select(t.k, t.g)) >> pdt.union(u >> pdt.select(u.k, u.g) >> pdt.group_by(u.g))),
        ("union:other_backend", TE, lambda tb, t, u, o: (tb >> pdt.select(t.k, t.g)) >> pdt.union(o >> pdt.select(o.k, o.g))),
        ("union:names_differ", V, lambda tb, t, u, o: (tb >> pdt.select(t.k, t.g)) >> pdt.union(u >> pdt.select(u.k, u.x2))),
        ("union:names_differ:hidden_match", V, lambda tb, t, u, o: (tb >> pdt.select(t.k, t.x)) >> pdt.union(u >> pdt.select(u.k, u.g))),
        ("union:types_incompatible", TE, lambda tb, t, u, o: (tb >> pdt.select(t.k, t.s) >> pdt.rename({"s": "g"})) >> pdt.union(u >> pdt.select(u.k, u.g))),
        ("union:direct:grouped", V, lambda tb, t, u, o: pdt.union(tb >> pdt.select(t.k, t.g) >> pdt.group_by(t.g), u >> pdt.select(u.k, u.g))),
        # 10 slice_head on a grouped table
        ("slice_head:grouped", V, lambda tb, t, u, o: (tb >> pdt.group_by(t.g)) >> pdt.slice_head(2)),
        ("slice_head:grouped:add", V, lambda tb, t, u, o: (tb >> pdt.group_by(t.g) >> pdt.group_by(t.b, add=True)) >> pdt.slice_head(1, offset=1)),
        # 12 full join with inequality
        ("join:full_inequality", V, lambda tb, t, u, o: tb >> pdt.join(u, t.k < u.k, "full")),
        ("join:full_mixed", V, lambda tb, t, u, o: tb >> pdt.join(u, (t.k == u.k) & (t.g >= u.g), "full")),
        # 11 markers outside arrange (verb level)
        ("marker:arrange_nested", TE, lambda tb, t, u, o: tb >> pdt.arrange(t.x.nulls_first() + 1)),
        ("marker:group_by", TE, lambda tb, t, u, o: tb >> pdt.group_by(t.g.descending())),
        ("marker:select", TE, lambda tb, t, u, o: tb >> pdt.select(t.g.nulls_last())),
        ("marker:on", TE, lambda tb, t, u, o: tb >> pdt.join(u, t.k.descending() == u.k, "inner")),
        ("marker:partition_by", TE, lambda tb, t, u, o: tb >> pdt.mutate(z=t.x.sum(partition_by=t.g.descending()))),
        # 15 non-expression arguments
        ("arg:select_int", TE, lambda tb, t, u, o: tb >> pdt.select(3)),
        ("arg:rename_value", TE, lambda tb, t, u, o: tb >> pdt.rename({"k": 3})),
        ("arg:rename_notdict", TE, lambda tb, t, u, o: tb >> pdt.rename(["k", "z"])),
        ("arg:slice_head_str", TE, lambda tb, t, u, o: tb >> pdt.slice_head("2")),
        ("arg:mutate_object", TE, lambda tb, t, u, o: tb >> pdt.mutate(z=object())),
        ("arg:arrange_int", TE, lambda tb, t, u, o: tb >> pdt.arrange(t.k, 5)),
        ("arg:join_how", TE, lambda tb, t, u, o: tb >> pdt.join(u, t.k == u.k, "outer")),
        ("arg:join_table", TE, lambda tb, t, u, o: tb >> pdt.join("u", "k", "inner")),
        ("arg:group_by_add", TE, lambda tb, t, u, o: tb >> pdt.group_by(t.g, add="yes")),
        ("arg:export_target", TE, lambda tb, t, u, o: tb >> pdt.export("polars")),
        ("arg:pipe_nonverb", TE, lambda tb, t, u, o: tb >> 5),
        ("arg:cast_python_type", TE | DT, lambda tb, t, u, o: tb >> pdt.mutate(z=t.k.cast(int))),
        ("arg:cast_python_str_type", TE | DT, lambda tb, t, u, o: tb >> pdt.mutate(z=t.k.cast(str))),
        ("arg:cast_string", TE | DT, lambda tb, t, u, o: tb >> pdt.mutate(z=t.k.cast("Int64"))),
        ("arg:cast_polars_type", TE | DT, lambda tb, t, u, o: tb >> pdt.mutate(z=t.k.cast(__import__("polars").Int64))),
        ("arg:cast_const", TE | DT, lambda tb, t, u, o: tb >> pdt.mutate(z=t.k.cast(pdt.Const(pdt.Int64())) if hasattr(pdt, "Const") else t.k.cast(None))),
        ("expr:python_and", TE, lambda tb, t, u, o: tb >> pdt.filter((t.x > 1) and t.b)),
        ("expr:python_if", TE, lambda tb, t, u, o: tb >> pdt.mutate(z=1 if t.b else 2)),
        ("case:when_nonbool_chained", DT, lambda tb, t, u, o: tb >> pdt.mutate(z=pdt.when(t.b).then(1).when(t.x).then(2))),
        ("case:otherwise_twice", TE | {"AttributeError"}, lambda tb, t, u, o: tb >> pdt.mutate(z=pdt.when(t.b).then(1).otherwise(2).otherwise(3))),
        ("case:when_after_otherwise", TE, lambda tb, t, u, o: tb >> pdt.mutate(z=pdt.when(t.b).then(1).otherwise(2).when(t.b).then(3))),
    ]


def make_tables(be):
    backend = drive.Backend(be)
    with M.SQL.setup():
        t = backend.make_table(TSPEC)
        u = backend.make_table(USPEC)
    return backend, t, u


BES = ("pol", "sqlite", "postgres", "mssql")  # the last two are bound to a stub DBAPI: verbs and build_query run, nothing executes
COMPILE_ONLY = ("postgres", "mssql")


def frame_of(tb, be="pol"):
    import pydiverse.transform as pdt

    if be in COMPILE_ONLY:
        return tb >> pdt.build_query()
    return tb >> pdt.export(pdt.Polars())


def judge_case(run, label, expected, fn, tabs, prefix, grouped_ok=True):
    """Run one rejection case on every backend; returns outcomes per backend."""
    outs = {}
    for be in BES:
        t, u, other = tabs[be]
        try:
            tb = prefix(t)
        except Exception as e:
            outs[be] = ("prefix_failed", type(e).__name__)
            continue
        try:
            before = frame_of(tb, be) if not _grouped(tb) else None
        except Exception:
            before = None
        M.SAN.drain()
        exc = None
        try:
            fn(tb, t, u, other)
        except Exception as e:  # noqa: BLE001
            exc = e
        sanv = M.SAN.drain()
        if exc is None:
            outs[be] = ("accepted", None)
            continue
        outs[be] = ("raise", type(exc).__name__, str(exc)[:160])
        for v in sanv:
            if v["inv"] in ("I14", "I4", "I5"):
                run.finding(Finding("san:" + v["inv"], be, None, f"{label}: {v['detail']}", verb=v["verb"], extra={"feature": None}), None)
        # table still usable and unchanged
        if before is not None:
            try:
                after = frame_of(tb, be)
                if be in COMPILE_ONLY:
                    p = None if before == after else "build_query text changed"
                else:
                    p = compare.frames_equal(before, after, ordered=(be == "pol"))
                if p:
                    run.finding(Finding("unusable", be, None, f"{label}: input table exports differently after the rejected call: {p}", extra={"feature": None}), None)
            except Exception as e:  # noqa: BLE001
                run.finding(Finding("unusable", be, None, f"{label}: input table cannot be exported after the rejected call: {type(e).__name__}: {e}", extra={"feature": None}), None)
            run.counters["usable_after_rejection_checked"] += 1
    return outs


def _grouped(tb):
    try:
        return bool(tb._cache.partition_by)
    except Exception:
        return False


KF_FEATURES = {
    # rule-id prefix -> feature name of a known finding (matched in known_findings.jsonl)
}


def report(run, label, expected, outs):
    feat = None
    for pref, f in KF_FEATURES.items():
        if label.split("|")[0].startswith(pref):
            feat = f
    classes = {be: (o[1] if o[0] == "raise" else o[0]) for be, o in outs.items()}
    for be, o in outs.items():
        if o[0] == "prefix_failed":
            run.counters["prefix_failed"] += 1
            continue
        if o[0] == "accepted":
            run.finding(Finding("accept:" + be, be, None, f"{label}: accepted, documented rejection {sorted(expected)}", extra={"feature": feat or "rule:" + label.split("|")[0]}), None)
        elif o[1] not in expected:
            kind = "internal:" if o[1] in INTERNAL else "excls:"
            run.finding(Finding(kind + be, be, None, f"{label}: raised {o[1]} ({o[2]}), documented {sorted(expected)}", exc=o[1],
                                extra={"feature": feat or "rule:" + label.split("|")[0]}), None)
        else:
            run.counters["rejected_as_documented"] += 1
            run.counters["rejected_as_documented:" + be] += 1
    if len(set(classes.values())) > 1 and all(o[0] != "prefix_failed" for o in outs.values()):
        run.finding(Finding("backend_differs", "|".join(BES), None, f"{label}: outcome differs between backends: {classes}", extra={"feature": feat or "rule:" + label.split("|")[0]}), None)


def execute(run, prop, shard):
    import pydiverse.transform as pdt

    rng = random.Random(f"C14:{run.seed}:{run.tier}")
    tabs = {}
    made = {be: make_tables(be) for be in BES}
    for be in BES:
        tabs[be] = (made[be][1], made[be][2], made["sqlite" if be == "pol" else "pol"][1])
    pres = prefixes()
    n_pref = 3 if run.tier == "quick" else len(pres)
    # ---- expression-level rules x positions x hosts x prefixes
    for rid, fam, expected, build in rules():
        for pname, pos in positions(fam):
            for hname, host in hosts():
                if hname == "arrange" and fam in ("bool",):
                    continue
                chosen = [pres[0]] + rng.sample(pres[1:], n_pref - 1)
                for prname, prefix in chosen:
                    label = f"{rid}|{pname}|{hname}|{prname}"

                    def fn(tb, t, u, other, build=build, pos=pos, host=host, fam=fam):
                        C = pdt.C
                        e = pos(lambda: build(t, u if u is not None else None, C), t)
                        return host(tb, e, fam)

                    # in summarize a bare non-aggregated expression is rejected with FunctionTypeError before / besides
                    exp = set(expected)
                    if hname == "summarize":
                        exp |= {"FunctionTypeError"}
                    if hname == "filter" and pname in ("agg_arg", "filter_kw", "arrange_kw") or (hname == "filter" and rid.startswith("nest")):
                        exp |= {"FunctionTypeError"}
                    if rid in ("marker:in_agg",) or (rid.startswith("nest") and pname in ("agg_arg", "filter_kw", "arrange_kw")):
                        exp |= {"FunctionTypeError"}  # the wrapping position adds a second aggregate: nesting error is as valid
                    if hname == "arrange" and rid.startswith("marker") and pname == "top":
                        continue  # a marker at the top of an arrange key is the legal use
                    if rid == "marker:desc_top" and pname == "arrange_kw":
                        continue  # ... and so is a marker at the top of an arrange= key
                    outs = judge_case(run, label, exp, fn, tabs, prefix)
                    run.case(shape=(rid, pname, hname, prname), nontrivial=True,
                             sample={"case": label, "expected": sorted(exp), "observed": {k: list(v[:2]) for k, v in outs.items()}} if run.evaluations % 400 == 0 else None)
                    report(run, label, exp, outs)
    # ---- verb-level rules x prefixes
    for rid, expected, fn in verb_rules():
        if fn is None:
            continue
        for prname, prefix in pres:
            if prname == "group_by" and not rid.startswith(("filter", "summarize", "select", "mutate", "arrange", "rename", "arg", "getitem", "getattr", "marker", "drop")):
                continue
            if prname == "select_hide_y" and rid.startswith("union"):
                continue
            if prname == "group_by" and rid in ("marker:on",):
                continue  # joining a grouped table is itself rejected (ValueError)
            label = f"{rid}|{prname}"
            outs = judge_case(run, label, expected, fn, tabs, prefix)
            run.case(shape=(rid, prname), nontrivial=True,
                     sample={"case": label, "expected": sorted(expected), "observed": {k: list(v[:2]) for k, v in outs.items()}} if run.evaluations % 300 == 0 else None)
            report(run, label, expected, outs)
    # ---- tables of the same dialect that live in another database (one SELECT runs on one database)
    import sqlalchemy as sqa

    from .. import env as _env

    other_url = {"sqlite": "sqlite:///file:pdtverif_other_db?mode=memory&uri=true", "postgres": "postgresql+pg8000://otherhost/otherdb", "mssql": "mssql+pymssql://otherhost/otherdb"}
    for be in ("sqlite", "postgres", "mssql"):
        eng2 = sqa.create_engine(other_url[be]) if be == "sqlite" else sqa.create_engine(other_url[be], module=_env.fake_dbapi("fake_" + be))
        v = pdt.Table(sqa.Table("v", sqa.MetaData(), sqa.Column("k", sqa.BigInteger), sqa.Column("g", sqa.BigInteger)), pdt.SqlAlchemy(eng2), name="v")
        t, u, _o = tabs[be]
        cases = [
            ("join:other_database", lambda tb: tb >> pdt.join(v, t.k == v.k, "inner")),
            ("join:other_database:left", lambda tb: tb >> pdt.join(v, t.k == v.k, "left")),
            ("join:other_database:nested", lambda tb: tb >> pdt.join(u >> pdt.join(v, u.k == v.k, "left"), t.k == u.k, "inner")),
            ("join:other_database:derived", lambda tb: tb >> pdt.join(v >> pdt.filter(v.k > 0) >> pdt.alias("w"), "k", "inner")),
            ("union:other_database", lambda tb: (tb >> pdt.select(t.k, t.g)) >> pdt.union(v)),
            ("union:other_database:direct", lambda tb: pdt.union(tb >> pdt.select(t.k, t.g), v >> pdt.mutate(g=v.g + 1))),
        ]
        for prname, prefix in pres[:4]:
            if prname == "group_by":
                continue
            for rid, f in cases:
                if prname == "select_hide_y" and rid.startswith("union"):
                    continue
                label = f"{rid}|{prname}"
                outs = {}
                try:
                    tb = prefix(t)
                except Exception as e:  # noqa: BLE001
                    outs[be] = ("prefix_failed", type(e).__name__)
                else:
                    before = frame_of(tb, be) if be in COMPILE_ONLY else None
                    try:
                        f(tb)
                        outs[be] = ("accepted", None)
                    except Exception as e:  # noqa: BLE001
                        outs[be] = ("raise", type(e).__name__, str(e)[:160])
                        if before is not None and frame_of(tb, be) != before:
                            run.finding(Finding("unusable", be, None, f"{label}: build_query text changed after the rejected call", extra={"feature": None}), None)
                run.case(shape=(rid, prname, be), nontrivial=True)
                run.counters["other_database_cases"] += 1
                report(run, label, {"TypeError"}, outs)
    # ---- the other side of the "duplicate names through a join suffix" rule: when the automatic suffix can be made
    #      unique (by a counter) the join is accepted and all names are pairwise distinct - on every backend, and the
    #      exported frame has exactly these names
    L = {"handle": "L0", "name": "l", "schema": [["id", "Int64"], ["a_t", "Int64"], ["k_d", "Int64"]], "rows": [[1, 10, 7], [2, 20, 8], [3, None, 9]]}
    R = {"handle": "R0", "name": "t2", "schema": [["rid", "Int64"], ["a", "Int64"], ["a_t", "Int64"]], "rows": [[1, 5, 50], [2, 6, None], [4, 7, 70]]}
    for be in ("pol", "sqlite"):
        backend = made[be][0]
        with M.SQL.setup():
            lt = backend.make_table(L)
            rt = backend.make_table(R)
        C = pdt.C
        ra = rt >> pdt.alias("t")  # right table named `t`: automatic suffix `_t`
        shapes = {
            "suffix_target_taken_left_and_right": lambda: lt >> pdt.join(ra >> pdt.rename({"rid": "id"}), "id", "inner"),
            "suffix_target_taken:mutate_both": lambda: (lt >> pdt.mutate(a=lt.a_t)) >> pdt.join(ra >> pdt.mutate(id=ra.rid), lt.id == ra.rid, "left"),
            "double_self_join": lambda: (tabs[be][0] >> pdt.select(C.k, C.g) >> pdt.join(tabs[be][0] >> pdt.select(C.k, C.g) >> pdt.alias("t"), "k", "inner"))
            >> pdt.join((tabs[be][0] >> pdt.select(C.k, C.g) >> pdt.alias("t")) >> pdt.join(tabs[be][0] >> pdt.select(C.k, C.g) >> pdt.alias("t"), "k", "inner") >> pdt.alias("t"), "k", "left"),
        }
        for sn, f in shapes.items():
            run.case(shape=("join_auto_suffix", sn, be), nontrivial=True)
            try:
                j = f()
                names = j >> pdt.columns()
                df = frame_of(j, be)
                if len(set(names)) != len(names):
                    run.finding(Finding("accept:" + be, be, None, f"join_auto_suffix:{sn}: join accepted with duplicate names {names}", extra={"feature": None}), None)
                elif list(df.columns) != names:
                    run.finding(Finding("accept:" + be, be, None, f"join_auto_suffix:{sn}: columns() {names} != exported {list(df.columns)}", extra={"feature": None}), None)
                else:
                    run.counters["join_auto_suffix_shapes_ok"] += 1
            except Exception as e:  # noqa: BLE001
                run.finding(Finding("excls:" + be, be, None, f"join_auto_suffix:{sn}: raised {type(e).__name__}: {str(e)[:160]} (a unique suffix exists)", exc=type(e).__name__, extra={"feature": None}), None)
    # summarize() without arguments and without grouping
    for be in BES:
        t = tabs[be][0]
        try:
            t >> pdt.summarize()
            run.finding(Finding("accept:" + be, be, None, "summarize() without grouping accepted", extra={"feature": None}), None)
        except ValueError:
            run.counters["rejected_as_documented"] += 1
        except Exception as e:  # noqa: BLE001
            run.finding(Finding("excls:" + be, be, None, f"summarize() without grouping raised {type(e).__name__}", extra={"feature": None}), None)
    # ---- converse: accepted pipelines export on Polars without an internal error
    n = 350 if run.tier == "quick" else 3000
    spec = dict(pipeline.SPECS["C01"])
    spec["owns"] = ("exc:pol", "accept:", "excls:", "san:I14")
    pipeline.SPECS["C14"] = spec
    pipeline.run(run, "C14", n)
    for be in BES:
        run.inconclusive_if(run.counters["rejected_as_documented:" + be] < 500, f"fewer than 500 documented rejections observed on {be}")


def finalize(run, prop):
    return run.finish(
        "rule table (type errors, non-boolean predicates, window/aggregate in filter/summarize/on, nesting, bare columns in summarize, "
        "unknown / hidden / foreign columns, duplicate names, grouped / same-origin / other-backend / other-database joins and unions, slice_head on grouped, "
        "full join with inequality, markers outside arrange, bad casts, const-parameter violations, non-expression arguments) x syntactic "
        "positions (top level, arithmetic, case branch / condition, partition_by= / arrange= / filter=, via C. and via table references) x "
        "hosting verbs x accepted prefix histories x {Polars, SQLite, PostgreSQL, SQL Server (the last two compile-only: usability = unchanged build_query text)}; plus generated accepted pipelines for the converse clause (incl. their eval_aligned forms: some columns moved to a second table / Series and passed through eval_aligned). "
        "distinct = distinct (rule, position, host, prefix)",
        pipeline.ASSUME_COMMON + ["the documented class per rule is taken from the property statement, C09's statement and the deliberate raise sites"],
    )


def thorough_timeout(prop):
    return 1500


def replay(prop, path):
    import json

    d = json.load(open(path))
    if isinstance(d.get("program"), dict) and d["program"].get("steps") is not None:
        # a generated pipeline of the converse clause: re-run it (and its eval_aligned form)
        spec = dict(pipeline.SPECS["C01"])
        spec["owns"] = ("exc:pol", "accept:", "excls:", "san:I14")
        pipeline.SPECS["C14"] = spec
        from . import pipeline_entry

        return pipeline_entry.replay(prop, path)
    print(open(path).read()[:3000])
    return 1
