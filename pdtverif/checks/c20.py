"""C20 — all export targets describe the same table.

For generated pipelines (including empty results, null-only columns, single-row and single-cell tables)
every export target is produced from the same table object and compared with `export(Polars())`:
Polars(lazy=True) collected, Pandas (arrow-backed dtypes mapped back), DictOfLists, ListOfDicts, Dict and
Scalar (TypeError when not applicable), ColExpr.export, and the round trip Table(exported_frame).
The Polars() export itself is judged against REF by C01/C02.
"""

from __future__ import annotations

import json
import random

from .. import drive, gen, ref, render
from .. import monitors as M
from ..runner import Finding
from . import pipeline

SHARDED = True


OLDER = []  # earlier tables of the same pipeline (set by the caller)
ORDERED = True  # set per table by the caller: is the row sequence an observable (REF's order record)?


def canon(rows):
    return sorted(rows, key=lambda r: tuple((v is None, str(type(v).__name__), str(v)) for v in (r if isinstance(r, tuple) else (r,))))


def frames_identical(a, b, check_dtypes=True):
    """polars frames: same names, order, dtypes, values (nulls equal; floats NaN-safe)."""
    if list(a.columns) != list(b.columns):
        return f"columns {a.columns} != {b.columns}"
    if a.height != b.height:
        return f"height {a.height} != {b.height}"
    if check_dtypes and list(a.dtypes) != list(b.dtypes):
        return f"dtypes {a.dtypes} != {b.dtypes}"
    if not ORDERED:
        ra, rb = canon(a.rows()), canon(b.rows())
        return None if ra == rb or str(ra) == str(rb) else f"row multisets differ: {ra[:3]} vs {rb[:3]}"
    try:
        if not a.equals(b, null_equal=True):
            for c in a.columns:
                if not a.get_column(c).equals(b.get_column(c), null_equal=True):
                    return f"column {c} differs: {a.get_column(c).to_list()[:6]} vs {b.get_column(c).to_list()[:6]}"
    except Exception as e:  # noqa: BLE001
        return f"cannot compare: {type(e).__name__}: {e}"
    return None


def _vals(lst):
    return lst if ORDERED else canon(lst)


def check_targets(run, tbl, be, label):
    """Yields findings for one table."""
    import pandas as pd
    import polars as pl

    import pydiverse.transform as pdt

    try:
        base = tbl >> pdt.export(pdt.Polars())
    except Exception:
        return  # not exportable: judged elsewhere (C01/C14/C19)
    run.counters[f"tables_checked:{be}"] += 1
    # lazy
    try:
        lz = tbl >> pdt.export(pdt.Polars(lazy=True))
        if not isinstance(lz, pl.LazyFrame):
            yield Finding("target:lazy", be, None, f"{label}: Polars(lazy=True) returned {type(lz).__name__}")
        else:
            p = frames_identical(base, lz.collect())
            if p:
                yield Finding("target:lazy", be, None, f"{label}: lazy != eager: {p}")
        run.counters["target:lazy"] += 1
    except NotImplementedError:
        run.counters[f"target_not_offered:{be}:lazy"] += 1
    except Exception as e:  # noqa: BLE001
        yield Finding("target:lazy", be, None, f"{label}: Polars(lazy=True) raised {type(e).__name__}: {e}", exc=type(e).__name__)
    # class instead of instance
    try:
        p = frames_identical(base, tbl >> pdt.export(pdt.Polars))
        if p:
            yield Finding("target:class", be, None, f"{label}: export(Polars) != export(Polars()): {p}")
    except Exception as e:  # noqa: BLE001
        yield Finding("target:class", be, None, f"{label}: export(Polars) raised {type(e).__name__}: {e}", exc=type(e).__name__)
    # pandas
    try:
        pdf = tbl >> pdt.export(pdt.Pandas())
        if not isinstance(pdf, pd.DataFrame):
            yield Finding("target:pandas", be, None, f"{label}: Pandas() returned {type(pdf).__name__}")
        else:
            if list(pdf.columns) != list(base.columns):
                yield Finding("target:pandas", be, None, f"{label}: pandas columns {list(pdf.columns)} != {base.columns}")
            else:
                back = pl.from_pandas(pdf) if len(pdf.columns) else pl.DataFrame()
                # null-typed columns come back as Null or object: compare values only there
                p = frames_identical(base.select(pl.all()), back.cast({c: base.schema[c] for c in base.columns if back.schema[c] != base.schema[c] and base.schema[c] == pl.Null}), check_dtypes=True) if len(pdf.columns) else None
                if p:
                    yield Finding("target:pandas", be, None, f"{label}: pandas frame != polars frame: {p}")
        run.counters["target:pandas"] += 1
    except NotImplementedError:
        run.counters[f"target_not_offered:{be}:pandas"] += 1  # D12
    except Exception as e:  # noqa: BLE001
        yield Finding("target:pandas", be, None, f"{label}: Pandas() raised {type(e).__name__}: {str(e)[:200]}", exc=type(e).__name__)
    # dict targets
    try:
        dol = tbl >> pdt.export(pdt.DictOfLists())
        dol_rows = list(zip(*dol.values())) if dol else []
        if list(dol.keys()) != list(base.columns) or (dol != base.to_dict(as_series=False) if ORDERED else canon(dol_rows) != canon(base.rows())):
            yield Finding("target:dict_of_lists", be, None, f"{label}: DictOfLists differs from the frame")
        lod = tbl >> pdt.export(pdt.ListOfDicts())
        if (lod != base.to_dicts()) if ORDERED else (canon([tuple(d.values()) for d in lod]) != canon(base.rows()) or any(list(d.keys()) != list(base.columns) for d in lod)):
            yield Finding("target:list_of_dicts", be, None, f"{label}: ListOfDicts differs from the frame")
        run.counters["target:dicts"] += 1
    except Exception as e:  # noqa: BLE001
        yield Finding("target:dicts", be, None, f"{label}: dict targets raised {type(e).__name__}: {e}", exc=type(e).__name__)
    for tgt, applicable, expect in (
        (pdt.Dict(), base.height == 1, lambda: base.to_dicts()[0]),
        (pdt.Scalar(), base.height == 1 and base.width == 1, lambda: base.item()),
    ):
        name = type(tgt).__name__
        try:
            got = tbl >> pdt.export(tgt)
            if not applicable:
                yield Finding("target:" + name, be, None, f"{label}: {name} accepted a {base.height}x{base.width} table (TypeError expected)")
            else:
                exp = expect()
                same = got == exp or (got != got and exp != exp)
                if not same or (isinstance(exp, dict) and list(got.keys()) != list(exp.keys())):
                    yield Finding("target:" + name, be, None, f"{label}: {name} gave {got!r}, frame says {exp!r}")
                run.counters["target:" + name] += 1
        except TypeError:
            if applicable:
                yield Finding("target:" + name, be, None, f"{label}: {name} raised TypeError for an applicable {base.height}x{base.width} table")
            else:
                run.counters["target_refused_as_documented:" + name] += 1
        except Exception as e:  # noqa: BLE001
            yield Finding("target:" + name, be, None, f"{label}: {name} raised {type(e).__name__}: {e}", exc=type(e).__name__)
    # ColExpr.export for every visible column and one derived expression
    if be == "pol" and not tbl._cache.partition_by:
        for c in list(tbl)[:4]:
            try:
                s = c.export(pdt.Polars())
                if _vals(s.to_list()) != _vals(base.get_column(c.name).to_list()) or s.dtype != base.schema[c.name]:
                    yield Finding("target:colexpr", be, None, f"{label}: {c.name}.export(Polars) != frame column")
                ps = c.export(pdt.Pandas())
                back = pl.from_pandas(ps)
                if _vals(back.to_list()) != _vals(base.get_column(c.name).to_list()):
                    yield Finding("target:colexpr", be, None, f"{label}: {c.name}.export(Pandas) != frame column")
                run.counters["target:colexpr"] += 1
            except Exception as e:  # noqa: BLE001
                yield Finding("target:colexpr", be, None, f"{label}: {c.name}.export raised {type(e).__name__}: {str(e)[:200]}", exc=type(e).__name__)
        ints = [c for c in tbl if c.dtype().is_int()]
        if ints:
            try:
                e = ints[0] * 2 + 1
                s = e.export(pdt.Polars())
                exp = (tbl >> pdt.mutate(zz__=e) >> pdt.export(pdt.Polars())).get_column("zz__")
                if _vals(s.to_list()) != _vals(exp.to_list()):
                    yield Finding("target:colexpr", be, None, f"{label}: (col*2+1).export differs from mutate+export")
                run.counters["target:colexpr_derived"] += 1
            except Exception as e:  # noqa: BLE001
                yield Finding("target:colexpr", be, None, f"{label}: expression export raised {type(e).__name__}: {str(e)[:200]}", exc=type(e).__name__)
    # ColExpr.export of aggregate / window expressions over a *grouped* table (Polars and SQL): the partitioning of the
    # table applies exactly as in mutate
    if not tbl._cache.partition_by:
        try:
            keys = [c for c in tbl if (c.dtype().is_int() or str(c.dtype()) in ("Bool", "String(None)")) and not types_is_const(c)]
            if keys and len(list(tbl)) >= 2:
                gt = tbl >> pdt.group_by(keys[-1])
                gints = [c for c in gt if c.dtype().is_int() and c.name != keys[-1].name]
                if gints:
                    x = gints[0]
                    exprs = {"sum": x.sum(), "max-x": x.max() - x, "count": x.count() + 0}
                    for en, e in exprs.items():
                        s = e.export(pdt.Polars())
                        exp = (gt >> pdt.mutate(zz__=e) >> pdt.ungroup() >> pdt.export(pdt.Polars())).get_column("zz__")
                        a, b = _vals(s.to_list()), _vals(exp.to_list())
                        if (a != b) if be == "pol" else (sorted(map(repr, a)) != sorted(map(repr, b))):
                            yield Finding("target:colexpr", be, None, f"{label}: grouped {en} of {x.name} by {keys[-1].name}: ColExpr.export {a[:6]} differs from mutate+export {b[:6]}")
                        run.counters["target:colexpr_grouped"] += 1
        except Exception as e_:  # noqa: BLE001
            if type(e_).__name__ not in ("SubqueryError", "NotSupportedError"):
                yield Finding("target:colexpr", be, None, f"{label}: ColExpr.export over a grouped table raised {type(e_).__name__}: {str(e_)[:200]}", exc=type(e_).__name__)
    # expression over columns of an *ancestor* table and of the current table: the common ancestor must be used
    if be == "pol" and not tbl._cache.partition_by and OLDER:
        try:
            cur = [c for c in tbl if c.dtype().is_int()]
            old = None
            anc = set(id(n) for n in tbl._ast.iter_subtree_preorder())
            for ot in OLDER:
                if id(ot._ast) not in anc:
                    continue  # only true ancestors of `tbl` qualify
                for oc in ot:
                    if oc.dtype().is_int() and oc in tbl and ot._ast is not tbl._ast:
                        old = oc
                        break
                if old is not None:
                    break
            if old is not None and cur:
                e = old + cur[-1]
                s = e.export(pdt.Polars())
                exp = (tbl >> pdt.mutate(zz__=e) >> pdt.export(pdt.Polars())).get_column("zz__")
                if _vals(s.to_list()) != _vals(exp.to_list()):
                    yield Finding("target:colexpr", be, None, f"{label}: (ancestor_col + col).export differs from mutate+export")
                run.counters["target:colexpr_mixed_roots"] += 1
        except Exception as e_:  # noqa: BLE001
            yield Finding("target:colexpr", be, None, f"{label}: export of an expression over ancestor and current columns raised {type(e_).__name__}: {str(e_)[:200]}", exc=type(e_).__name__)
    # round trip
    try:
        rt = pdt.Table(base, name="rt")
        back = rt >> pdt.export(pdt.Polars())
        p = frames_identical(base, back)
        if p:
            yield Finding("target:roundtrip", be, None, f"{label}: Table(exported) >> export differs: {p}")
        st = {c.name: str(c.dtype()) for c in rt}
        for c in rt:
            from pydiverse.common import Dtype

            if Dtype.from_polars(base.schema[c.name]) != c.dtype():
                yield Finding("target:roundtrip", be, None, f"{label}: round-trip dtype of {c.name}: {c.dtype()} vs {base.schema[c.name]}")
        _ = st
        run.counters["target:roundtrip"] += 1
    except Exception as e:  # noqa: BLE001
        yield Finding("target:roundtrip", be, None, f"{label}: round trip raised {type(e).__name__}: {str(e)[:200]}", exc=type(e).__name__)


def types_is_const(c):
    from pydiverse.transform._internal.tree import types

    return types.is_const(c.dtype())


def dtype_zoo(run):
    """Source frames of every Polars dtype: a dtype is either rejected by the Table constructor or survives
    filter / copy / slice / every target / re-import with the same values and the same (canonical) dtype."""
    import datetime as dt
    import decimal

    import polars as pl

    import pydiverse.transform as pdt

    tz = dt.timezone.utc
    zoo = {
        "UInt8": pl.Series([1, None, 3], dtype=pl.UInt8), "UInt16": pl.Series([1, None, 3], dtype=pl.UInt16), "UInt32": pl.Series([1, None, 3], dtype=pl.UInt32),
        "UInt64": pl.Series([1, None, 3], dtype=pl.UInt64), "Int8": pl.Series([1, None, -3], dtype=pl.Int8), "Int16": pl.Series([1, None, -3], dtype=pl.Int16),
        "Int32": pl.Series([1, None, -3], dtype=pl.Int32), "Int64": pl.Series([1, None, -3], dtype=pl.Int64), "Float32": pl.Series([1.5, None, -3.25], dtype=pl.Float32),
        "Float64": pl.Series([1.5, None, -3.25], dtype=pl.Float64), "Decimal": pl.Series([decimal.Decimal("1.50"), None, decimal.Decimal("-3.25")], dtype=pl.Decimal(10, 2)),
        "Bool": pl.Series([True, None, False]), "String": pl.Series(["a", None, "b'c"]), "Categorical": pl.Series(["a", None, "b"], dtype=pl.Categorical),
        "Enum": pl.Series(["a", None, "b"], dtype=pl.Enum(["a", "b"])), "Date": pl.Series([dt.date(2020, 2, 29), None, dt.date(1999, 12, 31)]),
        "Datetime(us)": pl.Series([dt.datetime(2020, 1, 1, 1, 2, 3), None, dt.datetime(1999, 12, 31)]),
        "Datetime(ms)": pl.Series([dt.datetime(2020, 1, 1, 1, 2, 3), None, dt.datetime(1999, 12, 31)], dtype=pl.Datetime("ms")),
        "Datetime(ns)": pl.Series([dt.datetime(2020, 1, 1, 1, 2, 3), None, dt.datetime(1999, 12, 31)], dtype=pl.Datetime("ns")),
        "Datetime(us,UTC)": pl.Series([dt.datetime(2020, 1, 1, 1, 2, 3, tzinfo=tz), None, dt.datetime(1999, 12, 31, tzinfo=tz)], dtype=pl.Datetime("us", "UTC")),
        "Duration": pl.Series([dt.timedelta(days=1), None, dt.timedelta(seconds=5)]), "Time": pl.Series([dt.time(1, 2, 3), None, dt.time(23, 59)]),
        "List(Int64)": pl.Series([[1, 2], None, []], dtype=pl.List(pl.Int64)), "List(String)": pl.Series([["a"], None, []], dtype=pl.List(pl.String)),
        "Array": pl.Series([[1, 2], None, [3, 4]], dtype=pl.Array(pl.Int64, 2)), "Struct": pl.Series([{"a": 1}, None, {"a": 2}]), "Binary": pl.Series([b"a", None, b"b"]),
        "Null": pl.Series([None, None, None]),
    }  # fmt: skip
    for name, ser in zoo.items():
        df = pl.DataFrame({"k": [1, 2, 3], "c": ser})
        run.case(shape=("dtype_zoo", name), nontrivial=True)
        try:
            t = pdt.Table(df, name="z")
        except Exception as e:  # noqa: BLE001
            if type(e).__name__ in ("KeyError", "TypeError", "NotSupportedError", "ValueError"):
                run.counters["dtype_rejected_by_constructor"] += 1
            else:
                run.finding(Finding("zoo", "pol", None, f"Table() with a {name} column raised {type(e).__name__}: {str(e)[:160]}", exc=type(e).__name__, extra={"feature": None}), None)
            continue
        static = t.c.dtype()
        want = static.to_polars()
        try:
            q = t >> pdt.filter(t.k > 0) >> pdt.mutate(c2=t.c) >> pdt.arrange(t.k)
            out = q >> pdt.export(pdt.Polars())
            lazy = (q >> pdt.export(pdt.Polars(lazy=True))).collect()
            lod = q >> pdt.export(pdt.ListOfDicts())
            dol = q >> pdt.export(pdt.DictOfLists())
            one = q >> pdt.select(t.c) >> pdt.slice_head(1) >> pdt.export(pdt.Scalar())
            series = t.c.export(pdt.Polars())
            back = pdt.Table(out, name="z2")
            back_df = back >> pdt.export(pdt.Polars())
        except Exception as e:  # noqa: BLE001
            run.finding(Finding("zoo", "pol", None, f"{name} column (static {static}): {type(e).__name__}: {str(e)[:200]}", exc=type(e).__name__, extra={"feature": None}), None)
            continue
        run.counters["dtype_zoo_roundtrips"] += 1
        vals = out["c"].to_list()
        probs = []
        def dtype_ok(d):
            # the static Datetime type carries neither unit nor time zone: any Datetime column is "Datetime"
            return d == want or (want.base_type() == pl.Datetime and d.base_type() == pl.Datetime)

        if not dtype_ok(out["c"].dtype) or out["c2"].dtype != out["c"].dtype:
            probs.append(f"exported dtype {out['c'].dtype} / {out['c2'].dtype} != static {static} ({want})")
        if vals != df["c"].cast(out["c"].dtype).to_list() or out["c2"].to_list() != vals:
            probs.append(f"values changed: {vals}")
        if not lazy.equals(out):
            probs.append("Polars(lazy=True) differs")
        if [r["c"] for r in lod] != vals or dol["c"] != vals or list(dol) != ["k", "c", "c2"]:
            probs.append("ListOfDicts / DictOfLists differ")
        if isinstance(one, pl.Series):
            one = one.to_list()
        if one != vals[0]:
            probs.append(f"Scalar {one!r} != {vals[0]!r}")
        if series.to_list() != vals or series.dtype != out["c"].dtype:
            probs.append("ColExpr.export differs")
        if str(back.c.dtype()) != str(static) or not back_df.equals(out):
            probs.append(f"re-import: static {back.c.dtype()} vs {static}, frame equal: {back_df.equals(out)}")
        for p in probs:
            run.finding(Finding("zoo", "pol", None, f"{name} column: {p}", extra={"feature": None}), None)


def execute(run, prop, shard):
    if shard is None or shard[0] == 0:
        dtype_zoo(run)
    n = 110 if run.tier == "quick" else 700
    rng = random.Random(f"C20:{run.seed}:{run.tier}:{shard[0] if shard else 0}")
    cache = {}
    spec = pipeline.SPECS["C01"]
    for i in range(n):
        fam = pipeline.pick_family(rng, spec["fams"])
        s = pipeline.case_seed(run.seed + 11, run.tier, shard[0] if shard else 0, i)
        try:
            prog = getattr(gen, "gen_" + fam)(s)
        except Exception:
            run.counters["generator_failures"] += 1
            continue
        # add probes that produce single-row / single-cell / empty tables
        last = prog["probes"][-1]
        g = len(prog["steps"])
        extra = [
            {"in": last, "out": f"X{g}a", "verb": "slice_head", "n": 1, "offset": 0},
            {"in": last, "out": f"X{g}b", "verb": "slice_head", "n": 0, "offset": 0},
        ]
        prog["steps"] += extra
        prog["probes"] = prog["probes"][-2:] + [e["out"] for e in extra]
        run.case(prog)
        for be in ("pol", "sqlite"):
            backend = cache.get(be) or drive.Backend(be)
            cache[be] = backend
            rr = drive.RealRun(prog, backend)
            with M.SQL.setup():
                rr.setup_tables()
            ok = {t["handle"] for t in prog["tables"]}
            for st in prog["steps"]:
                if st["in"] not in ok or ("right" in st and st["right"] not in ok):
                    continue
                try:
                    rr.env[st["out"]] = rr.apply(st)
                    ok.add(st["out"])
                except Exception:
                    pass
            rf = drive.RefRun(prog, "pol" if be == "pol" else "sql")
            rf.setup_tables()
            for st in prog["steps"]:
                try:
                    if st["in"] in rf.env and ("right" not in st or st["right"] in rf.env):
                        rf.env[st["out"]] = rf.apply(st)
                except Exception:
                    pass  # excluded / rejected / unsupported: the handle stays unknown to REF
            for h in prog["probes"]:
                if h not in ok or h not in rf.env:
                    continue
                import pydiverse.transform as pdt

                global ORDERED, OLDER
                OLDER = [rr.env[x] for x in list(rr.env)[:6] if x in ok and x != h]
                if any(v is ref.TAINT for c in rf.env[h].cols.values() for v in c.data):
                    run.counters["tables_excluded_by_domain"] += 1  # undefined cells may differ between two exports
                    continue
                ORDERED = rf.env[h].seq_ok("pol" if be == "pol" else "sql")
                run.counters["tables_with_defined_sequence" if ORDERED else "tables_compared_as_multisets"] += 1
                tbl = rr.env[h]
                variants = [(h, tbl)]
                try:
                    if len(tbl) >= 1 and not tbl._cache.partition_by:
                        variants.append((h + ":1col", tbl >> pdt.select(list(tbl)[0])))
                except Exception:
                    pass
                for lab, tb in variants:
                    for f in check_targets(run, tb, be, lab):
                        if _engine_excused(prog, f):
                            run.counters["excluded_by_domain:pol:D16"] += 1
                            continue

                        def still(q, f0=f, be=be):
                            return any(True for _ in _replay_findings(q, be, f0.kind))

                        run.finding(f, prog, owned=True, reshrink=still)
            M.SAN.drain()
    run.inconclusive_if(shard is None and run.counters["target:pandas"] < 20, "fewer than 20 Pandas exports compared")
    run.inconclusive_if(shard is None and run.counters["target:Scalar"] < 3, "fewer than 3 Scalar exports compared")


def _engine_excused(prog, f):
    """D16: the extra exports of this check (derived expressions through ColExpr.export / mutate + export) can hit the Polars
    broadcasting bug although the table itself exports: excluded by the engine's message AND the program feature."""
    from .. import runner as R

    return (
        f.backend == "pol"
        and f.exc in ("InvalidOperationError", "ShapeError", "ComputeError", "PanicException")
        and bool(R.ENGINE_BUG_RE.search(f.detail) or "to be broadcasted, ensure it is a scalar" in f.detail)
        and (R._has_horizontal(prog) or R.has_literal_case_under_operator(prog) or R.has_constant_condition(prog) or R.has_literal_left_comparison(prog))
    )


def _replay_findings(prog, be, kind=None):
    class R:
        counters = __import__("collections").Counter()

    import pydiverse.transform as pdt

    backend = drive.Backend(be)
    rr = drive.RealRun(prog, backend)
    with M.SQL.setup():
        rr.setup_tables()
    ok = {t["handle"] for t in prog["tables"]}
    for st in prog["steps"]:
        if st["in"] not in ok or ("right" in st and st["right"] not in ok):
            continue
        try:
            rr.env[st["out"]] = rr.apply(st)
            ok.add(st["out"])
        except Exception:
            pass
    for h in prog.get("probes", []):
        if h in ok:
            tbl = rr.env[h]
            vs = [tbl]
            try:
                if len(tbl) >= 1 and not tbl._cache.partition_by:
                    vs.append(tbl >> pdt.select(list(tbl)[0]))
            except Exception:
                pass
            for tb in vs:
                for f in check_targets(R, tb, be, h):
                    if (kind is None or f.kind == kind) and not _engine_excused(prog, f):
                        yield f


def finalize(run, prop):
    return run.finish(
        "generated pipelines (C01 families) plus single-row, empty and single-column variants; per table every export target is produced and "
        "compared with export(Polars()): lazy collect, Pandas (arrow dtypes mapped back, NA = null), DictOfLists, ListOfDicts, Dict / Scalar (TypeError "
        "when not 1-row / 1x1), ColExpr.export of visible columns and a derived expression, Table(exported frame) round trip incl. dtypes; on Polars "
        "all targets, on SQLite the targets it offers",
        pipeline.ASSUME_COMMON + ["Pandas / lazy targets on SQL tables raise NotImplementedError by construction (target not offered, D12)"],
    )


def thorough_timeout(prop):
    return 1500


def replay(prop, path):
    d = json.load(open(path))
    if d.get("program"):
        print(render.program(d["program"]))
        bad = []
        for be in ("pol", "sqlite"):
            for f in _replay_findings(d["program"], be):
                print(f.brief())
                bad.append(f)
        if bad:
            print(f"VIOLATION property={prop} replay={path}")
            return 1
        return 0
    return 1
