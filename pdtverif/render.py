"""Renders programs (pure data) as readable python-like source, for witnesses and evidence samples."""

from __future__ import annotations

BINOPS = {
    "add": "+",
    "sub": "-",
    "mul": "*",
    "truediv": "/",
    "floordiv": "//",
    "mod": "%",
    "pow": "**",
    "eq": "==",
    "ne": "!=",
    "lt": "<",
    "le": "<=",
    "gt": ">",
    "ge": ">=",
    "and": "&",
    "or": "|",
    "xor": "^",
}
HORIZ = {"coalesce": "pdt.coalesce", "hmax": "pdt.max", "hmin": "pdt.min", "hsum": "pdt.sum", "hany": "pdt.any", "hall": "pdt.all"}


def expr(e):
    k = e["k"]
    if k == "lit":
        if e.get("ty") in ("date", "datetime") and e["v"] is not None:
            return f"{e['ty']}({e['v']!r})"
        return repr(e["v"])
    if k == "col":
        return f"{e['t']}.{e['n']}"
    if k == "c":
        return f"C.{e['n']}"
    if k == "cast":
        return f"({expr(e['e'])}).cast({e['to']})"
    if k == "case":
        s = "".join(f"{'pdt' if i == 0 else ''}.when({expr(c)}).then({expr(v)})" for i, (c, v) in enumerate(e["cases"]))
        if e.get("default") is not None:
            s += f".otherwise({expr(e['default'])})"
        return s
    if k == "map":
        return f"({expr(e['e'])}).map({{...{len(e['m'])} keys}})"
    op = e["op"]
    a = [expr(x) for x in e["a"]]
    ctx = []
    if e.get("pb") is not None:
        ctx.append("partition_by=[" + ", ".join(expr(x) for x in e["pb"]) + "]")
    if e.get("arr"):
        ctx.append("arrange=[" + ", ".join(order(o) for o in e["arr"]) + "]")
    if e.get("flt"):
        ctx.append("filter=[" + ", ".join(expr(x) for x in e["flt"]) + "]")
    if op in BINOPS:
        return f"({a[0]} {BINOPS[op]} {a[1]})"
    if op == "neg":
        return f"(-{a[0]})"
    if op == "pos":
        return f"(+{a[0]})"
    if op == "invert":
        return f"(~{a[0]})"
    if op in HORIZ:
        return f"{HORIZ[op]}({', '.join(a)})"
    if op == "count_star":
        return f"pdt.count({', '.join(ctx)})"
    if op in ("row_number", "rank", "dense_rank"):
        return f"pdt.{op}({', '.join(ctx)})"
    return f"{a[0]}.{op}({', '.join(a[1:] + ctx)})"


def order(o):
    s = expr(o["e"])
    if o.get("desc"):
        s += ".descending()"
    if o.get("nl") is True:
        s += ".nulls_last()"
    elif o.get("nl") is False:
        s += ".nulls_first()"
    return s


def step(st):
    v = st["verb"]
    if v in ("select", "drop"):
        body = ", ".join(expr(e) for e in st["cols"])
    elif v == "rename":
        body = "{" + ", ".join(f"{(k if isinstance(k, str) else expr(k))!r}: {n!r}" for k, n in st["map"]) + "}"
    elif v in ("mutate", "summarize"):
        body = ", ".join(f"{n}={expr(e)}" for n, e in st["kw"])
    elif v == "filter":
        body = ", ".join(expr(e) for e in st["preds"])
    elif v == "arrange":
        body = ", ".join(order(o) for o in st["by"])
    elif v == "slice_head":
        body = f"{st['n']}, offset={st.get('offset', 0)}"
    elif v == "group_by":
        body = ", ".join(expr(e) for e in st["cols"]) + (", add=True" if st.get("add") else "")
    elif v == "join":
        on = repr(st["on_names"]) if "on_names" in st else "[" + ", ".join(expr(e) for e in st["on"]) + "]"
        body = f"{st['right']}, on={on}, how={st['how']!r}" + (f", suffix={st['suffix']!r}" if st.get("suffix") else "")
        if st.get("cross"):
            v = "cross_join"
            body = st["right"]
    elif v == "union":
        body = f"{st['right']}, distinct={bool(st.get('distinct'))}"
    elif v == "alias":
        body = (repr(st["name"]) + ", " if st.get("name") else "") + f"keep_col_refs={bool(st.get('keep'))}"
    elif v == "collect":
        body = f"keep_col_refs={st.get('keep', True)}"
    elif v == "transfer":
        return f"{st['out']} = pdt.transfer_col_references({st['in']}, {st['ref']})"
    else:
        body = ""
    return f"{st['out']} = {st['in']} >> {v}({body})"


def program(p, with_rows=True, max_rows=12):
    lines = []
    for t in p["tables"]:
        sch = ", ".join(f"{c}:{d}" for c, d in t["schema"])
        lines.append(f"{t['handle']} = Table(name={t['name']!r}, [{sch}], {len(t['rows'])} rows, shape={t.get('shape')})")
        if with_rows:
            for r in t["rows"][:max_rows]:
                lines.append(f"    {r!r}")
            if len(t["rows"]) > max_rows:
                lines.append(f"    ... {len(t['rows']) - max_rows} more")
    for i, st in enumerate(p["steps"]):
        lines.append(f"[{i}] " + step(st))
    if p.get("probes"):
        lines.append("probes: " + ", ".join(p["probes"]))
    return "\n".join(lines)


def shape_key(p):
    """Canonical program shape for `distinct_nontrivial`: verb sequence + operator multiset + data shape."""
    ops = []

    def walk(e):
        if isinstance(e, dict):
            if e.get("k") == "fn":
                ops.append(e["op"])
            elif e.get("k") in ("case", "cast", "map"):
                ops.append(e["k"])
            for v in e.values():
                walk(v)
        elif isinstance(e, list):
            for v in e:
                walk(v)

    for st in p["steps"]:
        walk(st)
    verbs = tuple(st["verb"] + (":" + st.get("how", "") if st["verb"] == "join" else "") for st in p["steps"])
    shapes = tuple(t.get("shape") for t in p["tables"])
    return (verbs, tuple(sorted(ops)), shapes)


def nontrivial(p):
    if len(p["steps"]) >= 2:
        return True
    ops = shape_key(p)[1]
    return len(ops) >= 1
