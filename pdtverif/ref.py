"""REF — independent executable reference semantics for pydiverse.transform pipelines.

Written from the documentation (verb / operator docstrings, docs/source/*.md, the property statements).
Pure Python over lists; imports nothing from pydiverse, polars or sqlalchemy.

Data model (property C09): a table is an ordered list of visible (name -> column id), a dictionary of
all in-scope columns by id (visible and hidden), a grouping state (ids), the row data, and an
*ordering knowledge record* (which arrange keys are in force).  Column ids are global integers.

Two things REF computes that the real code does not:
  * taint  – TAINT cells / DomainExcluded when the documentation defines no backend-independent
             value (DESIGN.md section 4),
  * the expected outcome class of a step (RefReject carries the documented exception class).

REF is evaluated in one of two *modes*: "pol" (row order of a frame is an observable, window
functions without arrange= use the current row order) and "sql" (row order is only an observable
under a total ORDER BY; window functions that depend on order need an explicit total arrange=).
"""

from __future__ import annotations

import datetime as _dt
import functools
import itertools
import math


class _Taint:
    __slots__ = ()

    def __repr__(self):
        return "TAINT"


TAINT = _Taint()


class DomainExcluded(Exception):
    """The program left the defined domain (DESIGN section 4); `rule` is D1..D15."""

    def __init__(self, rule, why=""):
        super().__init__(f"{rule}: {why}")
        self.rule = rule


class RefReject(Exception):
    """The documentation says this step must be rejected with exception class `cls`."""

    def __init__(self, cls, why=""):
        super().__init__(f"{cls}: {why}")
        self.cls = cls


class RefUnsupported(Exception):
    """REF does not model this construct (harness bug if it escapes a generator)."""


_next_id = itertools.count(1)


def new_id():
    return next(_next_id)


class RCol:
    __slots__ = ("id", "fam", "data", "name0", "const")

    def __init__(self, id, fam, data, name0, const=False):
        self.id = id
        self.fam = fam
        self.data = data
        self.name0 = name0
        self.const = const


class OrdKey:
    __slots__ = ("vec", "desc", "nl")

    def __init__(self, vec, desc, nl):
        self.vec, self.desc, self.nl = vec, desc, nl


class RTable:
    def __init__(self):
        self.cols: dict[int, RCol] = {}
        self.vis: list[tuple[str, int]] = []
        self.group: list[int] = []
        self.n = 0
        self.ordkeys: list[OrdKey] = []  # in priority order
        self.seq_defined = True  # is the *sequence* of REF's rows the defined result?
        self.name = None
        self.sources: frozenset = frozenset()
        self.null_order_taint = False

    # -- helpers -------------------------------------------------------
    def copy(self):
        t = RTable()
        t.cols = dict(self.cols)
        t.vis = list(self.vis)
        t.group = list(self.group)
        t.n = self.n
        t.ordkeys = list(self.ordkeys)
        t.seq_defined = self.seq_defined
        t.name = self.name
        t.sources = self.sources
        t.null_order_taint = self.null_order_taint
        return t

    def names(self):
        return [n for n, _ in self.vis]

    def name_to_id(self):
        return {n: i for n, i in self.vis}

    def id_to_name(self):
        return {i: n for n, i in self.vis}

    def take(self, idx):
        """Row subset / permutation (new RCol objects, same ids)."""
        t = self.copy()
        t.cols = {i: RCol(i, c.fam, [c.data[j] for j in idx], c.name0, c.const) for i, c in self.cols.items()}
        t.ordkeys = [OrdKey([k.vec[j] for j in idx], k.desc, k.nl) for k in self.ordkeys]
        t.n = len(idx)
        return t

    def rows(self, ids=None):
        ids = [i for _, i in self.vis] if ids is None else ids
        return [tuple(self.cols[i].data[r] for i in ids) for r in range(self.n)]

    def sql_order_defined(self):
        """ORDER BY keys are consulted in priority order; the sequence is defined iff a prefix of them
        is total on the rows and none of the keys of that prefix has an unmarked null (D8)."""
        if self.n <= 1:
            return True
        keys = []
        for k in self.ordkeys:
            if k.nl is None and any(v is None for v in k.vec):
                return False
            keys.append(k)
            seen = set()
            total = True
            for r in range(self.n):
                tup = tuple(_hashable(kk.vec[r]) for kk in keys)
                if tup in seen:
                    total = False
                    break
                seen.add(tup)
            if total:
                return True
        return False

    def seq_ok(self, mode):
        """Is the row *sequence* an observable of this table in `mode`?"""
        if self.n <= 1:
            return True
        return self.seq_defined if mode == "pol" else self.sql_order_defined()

    def order_total(self):
        """Are the arrange keys in force total on the current rows (pairwise distinct tuples)?"""
        if not self.ordkeys:
            return False
        seen = set()
        for r in range(self.n):
            tup = tuple(_order_bucket(k.vec[r]) for k in self.ordkeys)
            if tup in seen:
                return False
            seen.add(tup)
        return True


def _hashable(v):
    if isinstance(v, float) and v == 0:
        return 0.0
    return v


def _order_bucket(v):
    """Floats that differ only by rounding error do not fix an order (an engine may compute them equal or swapped)."""
    if isinstance(v, float) and v == v and v not in (float("inf"), float("-inf")):
        return float(f"{v:.9g}") + 0.0
    return _hashable(v)


def source_table(name, schema, rows, mode):
    """schema: list of (colname, fam)."""
    t = RTable()
    t.name = name
    t.n = len(rows)
    for j, (cn, fam) in enumerate(schema):
        cid = new_id()
        t.cols[cid] = RCol(cid, fam, [r[j] for r in rows], cn)
        t.vis.append((cn, cid))
    t.seq_defined = mode == "pol"
    t.sources = frozenset([id(t)])
    return t


# ---------------------------------------------------------------------------------------------
# scalar semantics of the element-wise catalogue
# ---------------------------------------------------------------------------------------------

INT_LIMIT = 2**53


def _chk_int(v):
    if isinstance(v, int) and not isinstance(v, bool) and abs(v) > INT_LIMIT:
        return TAINT
    return v


def _chk_float(v):
    if isinstance(v, float) and (math.isnan(v) or math.isinf(v)):
        return TAINT
    return v


def _trunc_div(a, b):
    if b == 0:
        return TAINT
    q = abs(a) // abs(b)
    return q if (a < 0) == (b < 0) else -q


def _trunc_mod(a, b):
    if b == 0:
        return TAINT
    m = abs(a) % abs(b)
    return m if a >= 0 else -m


def _truediv(a, b):
    if b == 0:
        return TAINT
    return a / b


def _pow(a, b):
    try:
        if a == 0 and b < 0:
            return TAINT
        if isinstance(a, int) and isinstance(b, int) and b < 0:
            return TAINT  # docs: Polars throws on negative integer exponents
        if a < 0 and isinstance(b, float) and b != int(b):
            return TAINT
        r = float(a) ** b
    except (OverflowError, ZeroDivisionError, ValueError):
        return TAINT
    if isinstance(r, complex):
        return TAINT
    return r


def _round(x, d):
    if isinstance(x, int) and not isinstance(x, bool):
        if d >= 0:
            return x
        # rounding ints to tens etc.: ties are backend dependent
        m = 10 ** (-d)
        if (abs(x) % m) * 2 == m:
            return TAINT
        q = (abs(x) + m // 2) // m * m
        return q if x >= 0 else -q
    s = x * (10.0**d)
    frac = abs(s - math.trunc(s))
    if abs(frac - 0.5) < 1e-6:
        return TAINT  # D4 rounding tie
    return float(round(s)) / (10.0**d) if d != 0 else float(round(s))


def _kleene_and(a, b):
    if a is False or b is False:
        return False
    if a is None or b is None:
        return None
    return True


def _kleene_or(a, b):
    if a is True or b is True:
        return True
    if a is None or b is None:
        return None
    return False


def _kleene_xor(a, b):
    if a is None or b is None:
        return None
    return a != b


def _eq(a, b):
    return a == b


def _domain(fn, lo=None, hi=None, lo_open=False):
    def g(x):
        if lo is not None and (x < lo or (lo_open and x == lo)):
            return TAINT
        if hi is not None and x > hi:
            return TAINT
        try:
            return fn(x)
        except (OverflowError, ValueError):
            return TAINT

    return g


def _cbrt(x):
    return math.copysign(abs(x) ** (1.0 / 3.0), x)


def _str_slice(s, off, n):
    if off < 0 or n < 0:
        return TAINT
    return s[off : off + n]


def _is_ascii(s):
    return all(ord(c) < 128 for c in s)


def _upper(s):
    return s.upper() if _is_ascii(s) else TAINT


def _lower(s):
    return s.lower() if _is_ascii(s) else TAINT


_WS = " \t\n\r\x0b\x0c"


def _strip(s):
    # SQL TRIM removes spaces only; Polars strip_chars removes all whitespace: defined where both agree
    a = s.strip(" ")
    b = s.strip()
    return a if a == b else TAINT


def _replace_all(s, pat, rep):
    if pat == "":
        return TAINT
    return s.replace(pat, rep)


def _str_len(s):
    return len(s)


def _dow(d):
    return d.isoweekday()


def _doy(d):
    return d.timetuple().tm_yday


# name -> (python fn over non-null args, result family rule)
#   result family rule: "same" (family of first arg after numeric promotion), or a family name
def _numfam(fams):
    fams = [f for f in fams if f != "null"]
    if not fams:
        return "null"
    if "float" in fams:
        return "float"
    return fams[0]


ELEMENTWISE = {
    # arithmetic
    "add": (lambda a, b: a + b, "arith"),
    "sub": (lambda a, b: a - b, "arith"),
    "mul": (lambda a, b: a * b, "arith"),
    "truediv": (_truediv, "float"),
    "floordiv": (_trunc_div, "int"),
    "mod": (_trunc_mod, "int"),
    "pow": (_pow, "float"),
    "neg": (lambda a: -a, "arith"),
    "pos": (lambda a: a, "arith"),
    "abs": (lambda a: abs(a), "arith"),
    "round": (_round, "arith"),
    "floor": (lambda a: float(math.floor(a)), "float"),
    "ceil": (lambda a: float(math.ceil(a)), "float"),
    "exp": (_domain(math.exp, hi=700), "float"),
    "log": (_domain(math.log, lo=0, lo_open=True), "float"),
    "log10": (_domain(math.log10, lo=0, lo_open=True), "float"),
    "sqrt": (_domain(math.sqrt, lo=0), "float"),
    "cbrt": (_cbrt, "float"),
    "sin": (math.sin, "float"),
    "cos": (math.cos, "float"),
    "tan": (math.tan, "float"),
    "asin": (_domain(math.asin, lo=-1, hi=1), "float"),
    "acos": (_domain(math.acos, lo=-1, hi=1), "float"),
    "atan": (math.atan, "float"),
    # comparison
    "eq": (lambda a, b: a == b, "bool"),
    "ne": (lambda a, b: a != b, "bool"),
    "lt": (lambda a, b: a < b, "bool"),
    "le": (lambda a, b: a <= b, "bool"),
    "gt": (lambda a, b: a > b, "bool"),
    "ge": (lambda a, b: a >= b, "bool"),
    # strings
    "str.len": (_str_len, "int"),
    "str.upper": (_upper, "str"),
    "str.lower": (_lower, "str"),
    "str.strip": (_strip, "str"),
    "str.starts_with": (lambda s, p: s.startswith(p), "bool"),
    "str.ends_with": (lambda s, p: s.endswith(p), "bool"),
    "str.contains": (lambda s, p: p in s, "bool"),  # allow_regex=False only
    "str.replace_all": (_replace_all, "str"),
    "str.slice": (_str_slice, "str"),
    # datetime
    "dt.year": (lambda d: d.year, "int"),
    "dt.month": (lambda d: d.month, "int"),
    "dt.day": (lambda d: d.day, "int"),
    "dt.hour": (lambda d: d.hour, "int"),
    "dt.minute": (lambda d: d.minute, "int"),
    "dt.second": (lambda d: d.second, "int"),
    "dt.day_of_week": (_dow, "int"),
    "dt.day_of_year": (_doy, "int"),
}

# operators with their own null semantics
SPECIAL = {
    "and",
    "or",
    "xor",
    "invert",
    "is_null",
    "is_not_null",
    "fill_null",
    "is_in",
    "coalesce",
    "hmax",
    "hmin",
    "hsum",
    "hany",
    "hall",
    "clip",
}

AGGREGATES = {"sum", "mean", "min", "max", "any", "all", "count", "count_star", "str.join"}
WINDOWS = {"row_number", "rank", "dense_rank", "shift", "cum_sum"}
ORDER_SENSITIVE = {"row_number", "shift", "cum_sum"}


def _coerce(v, fam):
    if v is None or v is TAINT:
        return v
    if fam == "float":
        if isinstance(v, bool):
            return float(v)
        if isinstance(v, int):
            v = float(v)
        return _chk_float(v)
    if fam == "int":
        if isinstance(v, bool):
            return int(v)
        return _chk_int(v)
    return v


def _apply_elementwise(op, fams, rows):
    """rows: iterable of argument tuples -> list of results; fams: families of args."""
    fn, rule = ELEMENTWISE[op]
    if rule == "arith":
        if op in ("add", "sub", "mul", "neg", "pos", "abs", "round"):
            if fams[0] == "str" and op == "add":
                rf = "str"
            elif fams[0] == "bool" and op == "add":
                rf = "int"
            elif op == "round":
                rf = fams[0]
            else:
                rf = _numfam(fams)
        else:
            rf = _numfam(fams)
    else:
        rf = rule
    # numeric promotion of inputs for mixed int/float comparisons is what Python does anyway
    out = []
    for args in rows:
        if any(a is TAINT for a in args):
            out.append(TAINT)
        elif any(a is None for a in args):
            out.append(None)
        else:
            if fams[0] == "bool" and op == "add":
                args = tuple(int(a) for a in args)
            try:
                out.append(_coerce(fn(*args), rf))
            except (OverflowError, ValueError, ZeroDivisionError):
                out.append(TAINT)
    return rf, out


def _apply_special(op, fams, rows):
    out = []
    if op in ("and", "or", "xor"):
        f = {"and": _kleene_and, "or": _kleene_or, "xor": _kleene_xor}[op]
        for a, b in rows:
            if a is TAINT or b is TAINT:
                # Kleene short circuit still defined if the other side decides
                if op == "and" and (a is False or b is False):
                    out.append(False)
                elif op == "or" and (a is True or b is True):
                    out.append(True)
                else:
                    out.append(TAINT)
            else:
                out.append(f(a, b))
        return "bool", out
    if op == "invert":
        for (a,) in rows:
            out.append(a if a is TAINT or a is None else (not a))
        return "bool", out
    if op == "is_null":
        for (a,) in rows:
            out.append(TAINT if a is TAINT else a is None)
        return "bool", out
    if op == "is_not_null":
        for (a,) in rows:
            out.append(TAINT if a is TAINT else a is not None)
        return "bool", out
    if op in ("fill_null", "coalesce"):
        rf = _numfam(fams) if all(f in ("int", "float", "null") for f in fams) else next(
            (f for f in fams if f != "null"), "null"
        )
        for args in rows:
            r = None
            for a in args:
                if a is TAINT:
                    r = TAINT
                    break
                if a is not None:
                    r = a
                    break
            out.append(_coerce(r, rf))
        return rf, out
    if op == "is_in":
        # documented: x.is_in(a, b) == (x == a) | (x == b)
        for args in rows:
            x, vals = args[0], args[1:]
            acc = False
            for v in vals:
                if x is TAINT or v is TAINT:
                    e = TAINT
                elif x is None or v is None:
                    e = None
                else:
                    e = x == v
                if acc is TAINT or e is TAINT:
                    acc = True if (acc is True or e is True) else TAINT
                else:
                    acc = _kleene_or(acc, e)
            out.append(acc)
        return "bool", out
    if op in ("hmax", "hmin"):
        rf = _numfam(fams) if all(f in ("int", "float", "null") for f in fams) else next(
            (f for f in fams if f != "null"), "null"
        )
        pick = max if op == "hmax" else min
        for args in rows:
            if any(a is TAINT for a in args):
                out.append(TAINT)
                continue
            nn = [a for a in args if a is not None]
            out.append(_coerce(pick(nn), rf) if nn else None)
        return rf, out
    if op == "hsum":
        rf = "str" if fams[0] == "str" else _numfam(fams)
        for args in rows:
            if any(a is TAINT for a in args):
                out.append(TAINT)
            elif any(a is None for a in args):
                out.append(None)
            else:
                acc = args[0]
                for a in args[1:]:
                    acc = acc + a
                out.append(_coerce(acc, rf))
        return rf, out
    if op in ("hany", "hall"):
        f = _kleene_or if op == "hany" else _kleene_and
        for args in rows:
            acc = args[0]
            for a in args[1:]:
                if acc is TAINT or a is TAINT:
                    if op == "hany" and (acc is True or a is True):
                        acc = True
                    elif op == "hall" and (acc is False or a is False):
                        acc = False
                    else:
                        acc = TAINT
                else:
                    acc = f(acc, a)
            out.append(acc)
        return "bool", out
    if op == "clip":
        rf = _numfam(fams) if all(f in ("int", "float", "null") for f in fams) else fams[0]
        for x, lo, hi in rows:
            if x is TAINT or lo is TAINT or hi is TAINT:
                out.append(TAINT)
            elif x is None:
                out.append(None)
            elif lo is None or hi is None:
                out.append(TAINT)  # docs only define non-null bounds
            elif lo > hi:
                out.append(TAINT)
            else:
                out.append(_coerce(max(min(x, hi), lo), rf))
        return rf, out
    raise RefUnsupported(op)


# ---------------------------------------------------------------------------------------------
# casts (documented table, ColExpr.cast docstring)
# ---------------------------------------------------------------------------------------------

import re as _re

_INT_RE = _re.compile(r"^[+-]?\d+$")
_FLOAT_RE = _re.compile(r"^[+-]?\d+(\.\d+)?$")

INT_RANGES = {
    "Int8": (-(2**7), 2**7 - 1),
    "Int16": (-(2**15), 2**15 - 1),
    "Int32": (-(2**31), 2**31 - 1),
    "Int64": (-(2**63), 2**63 - 1),
    "UInt8": (0, 2**8 - 1),
    "UInt16": (0, 2**16 - 1),
    "UInt32": (0, 2**32 - 1),
    "UInt64": (0, 2**64 - 1),
}


def target_family(to):
    if to in INT_RANGES or to == "Int":
        return "int"
    if to in ("Float64", "Float32", "Float"):
        return "float"
    return {"String": "str", "Bool": "bool", "Date": "date", "Datetime": "datetime"}[to]


def cast_value(v, src_fam, to):
    if v is None or v is TAINT:
        return v
    tf = target_family(to)
    if isinstance(v, tuple) and len(v) == 2 and v[0] in ("floatstr", "dtstr"):
        # the text of a float / datetime (its exact spelling is backend dependent): parsing it back as the same kind is
        # defined, everything else is not
        if v[0] == "floatstr" and tf == "float":
            return cast_value(v[1], "float", to)
        if tf == "str":
            return v
        return TAINT
    if tf == "int":
        if src_fam == "float":
            if math.isnan(v) or math.isinf(v):
                return TAINT
            r = math.trunc(v)
        elif src_fam == "bool":
            r = int(v)
        elif src_fam == "int":
            r = v
        elif src_fam == "str":
            if not _INT_RE.match(v):
                return TAINT
            r = int(v)
        else:
            raise RefUnsupported(f"cast {src_fam}->{to}")
        lo, hi = INT_RANGES.get(to, INT_RANGES["Int64"])
        if r < lo or r > hi:
            return TAINT
        return _chk_int(r)
    if tf == "float":
        if src_fam in ("int", "bool", "float"):
            r = float(v)
        elif src_fam == "str":
            if not _FLOAT_RE.match(v):
                return TAINT
            r = float(v)
        else:
            raise RefUnsupported(f"cast {src_fam}->{to}")
        if to == "Float32":
            import struct

            r = struct.unpack("f", struct.pack("f", r))[0]
        return _chk_float(r)
    if tf == "str":
        if src_fam == "int":
            return str(v)
        if src_fam == "float":
            return ("floatstr", float(v))  # compared after parsing back
        if src_fam == "date":
            return v.isoformat()
        if src_fam == "datetime":
            return ("dtstr", v)  # canonical text differs in fractional digits between backends
        if src_fam == "str":
            return v
        raise RefUnsupported(f"cast {src_fam}->{to}")
    if tf == "date":
        if src_fam == "datetime":
            return v.date()
        if src_fam == "date":
            return v
    if tf == "datetime":
        if src_fam == "date":
            return _dt.datetime(v.year, v.month, v.day)
        if src_fam == "datetime":
            return v
    if tf == "bool" and src_fam == "bool":
        return v
    raise RefUnsupported(f"cast {src_fam}->{to}")


# ---------------------------------------------------------------------------------------------
# ordering
# ---------------------------------------------------------------------------------------------


def _cmp_val(a, b):
    return -1 if a < b else (1 if a > b else 0)


def _cmp_key(a, b, desc, nl):
    """Compare two key values under markers. nl: True nulls last, False nulls first, None unmarked
    (nulls placed first here; callers taint when it matters)."""
    if a is None or b is None:
        if a is None and b is None:
            return 0
        null_first = not (nl is True)
        if a is None:
            return -1 if null_first else 1
        return 1 if null_first else -1
    c = _cmp_val(a, b)
    return -c if desc else c


def order_indices(n, keys: list[OrdKey], base=None):
    """Stable sort of range(n) (or `base`) by keys in priority order."""
    idx = list(range(n)) if base is None else list(base)

    def cmp(i, j):
        for k in keys:
            c = _cmp_key(k.vec[i], k.vec[j], k.desc, k.nl)
            if c:
                return c
        return 0

    idx.sort(key=functools.cmp_to_key(cmp))
    return idx


def keys_equal(keys, i, j):
    """Tie test for order-dependent results: floats within rounding error of each other count as tied."""
    return all(_cmp_key(k.vec[i], k.vec[j], k.desc, k.nl) == 0 or _near_floats(k.vec[i], k.vec[j]) for k in keys)


def _near_floats(a, b):
    if isinstance(a, float) or isinstance(b, float):
        if isinstance(a, int | float) and isinstance(b, int | float) and not isinstance(a, bool) and not isinstance(b, bool):
            return abs(a - b) <= 1e-9 * max(1.0, abs(a), abs(b))
    return False


def keys_have_unmarked_null(keys):
    return any(k.nl is None and any(v is None for v in k.vec) for k in keys)


# ---------------------------------------------------------------------------------------------
# expression evaluation
# ---------------------------------------------------------------------------------------------


class Ctx:
    def __init__(self, tbl: RTable, handles: dict, mode: str, verb: str, extra_scope=None):
        self.tbl = tbl
        self.handles = handles
        self.mode = mode  # pol | sql
        self.verb = verb  # mutate | summarize | filter | arrange | on
        self.extra_scope = extra_scope  # for join: right table


def resolve(e, ctx: Ctx):
    """Column reference -> column id (C09: identity based for refs, name based for C.x)."""
    t = ctx.tbl
    if e["k"] == "c":
        m = t.name_to_id()
        if e["n"] not in m:
            if ctx.extra_scope is not None and e["n"] in ctx.extra_scope.name_to_id():
                return ctx.extra_scope.name_to_id()[e["n"]]
            raise RefReject("ColumnNotFoundError", f"C.{e['n']}")
        if ctx.extra_scope is not None and e["n"] in ctx.extra_scope.name_to_id():
            raise RefReject("ValueError", "ambiguous C-column in on")
        return m[e["n"]]
    src = ctx.handles[e["t"]]
    m = src.name_to_id()
    if e["n"] not in m:
        raise RefUnsupported(f"handle {e['t']} has no visible column {e['n']}")
    cid = m[e["n"]]
    if cid in t.cols:
        return cid
    if ctx.extra_scope is not None and cid in ctx.extra_scope.cols:
        return cid
    raise RefReject("ColumnNotFoundError" if ctx.verb != "on" else "ValueError", f"{e['t']}.{e['n']} not in scope")


def _col(cid, ctx):
    if cid in ctx.tbl.cols:
        return ctx.tbl.cols[cid]
    return ctx.extra_scope.cols[cid]


class Vec:
    __slots__ = ("fam", "data", "const", "ftype", "inexact")

    def __init__(self, fam, data, const=False, ftype="e", inexact=False):
        self.fam, self.data, self.const, self.ftype = fam, data, const, ftype
        # a float that went through floating-point arithmetic: its low bits depend on the engine's evaluation
        # order, so functions that are discontinuous at integers (cast to int, floor, ceil) are undefined for
        # values within rounding error of an integer (DESIGN section 4, D21)
        self.inexact = inexact and fam == "float"


INEXACT_IDS: set[int] = set()  # global column ids holding such floats
EXACT_PASS = {"fill_null", "coalesce", "hmax", "hmin", "shift", "min", "max", "abs", "neg", "clip"}


def near_integer(v):
    return isinstance(v, float) and not (math.isnan(v) or math.isinf(v)) and abs(v - round(v)) <= 1e-6 * max(1.0, abs(v))


def _fn_inexact(op, rf, args):
    if rf != "float":
        return False
    if op in EXACT_PASS:
        return any(a.inexact for a in args)
    return True


def _taint_discontinuous(op, args, out):
    """floor / ceil of an inexact float next to an integer: not defined independently of the engine."""
    if op in ("floor", "ceil") and args and args[0].inexact:
        return [TAINT if near_integer(x) else o for x, o in zip(args[0].data, out)]
    return out


def _cast_vec(v, e, **kw):
    tf = target_family(e["to"])
    data = [cast_value(x, v.fam, e["to"]) for x in v.data]
    if tf == "int" and v.fam == "float" and v.inexact:
        data = [TAINT if near_integer(x) else d for x, d in zip(v.data, data)]
    return Vec(tf, data, const=v.const, inexact=v.inexact, **kw)


def lit_value(e):
    ty = e.get("ty")
    v = e["v"]
    if v is None:
        return "null", None
    if ty == "date":
        return "date", _dt.date.fromisoformat(v)
    if ty == "datetime":
        return "datetime", _dt.datetime.fromisoformat(v)
    if isinstance(v, bool):
        return "bool", v
    if isinstance(v, int):
        return "int", v
    if isinstance(v, float):
        return "float", v
    if isinstance(v, str):
        return "str", v
    raise RefUnsupported(f"literal {v!r}")


def map_to_case(e):
    """x.map({k: v, (k1, k2): w}, default=d) is the case expression when(x.is_in(k)).then(v)...otherwise(d or x)."""
    cases = []
    for key, val in e["m"]:
        keys = key if isinstance(key, list) else [key]
        cases.append([{"k": "fn", "op": "is_in", "a": [e["e"], *keys]}, val])
    return {"k": "case", "cases": cases, "default": e.get("default") if e.get("default") is not None else e["e"]}


def eval_rows(e, ctx: Ctx, n: int, under_fn=False) -> Vec:
    """Evaluate in row space (length n)."""
    k = e["k"]
    if k == "map":
        return eval_rows(map_to_case(e), ctx, n, under_fn)
    if k == "lit":
        fam, v = lit_value(e)
        return Vec(fam, [v] * n, const=True)
    if k in ("col", "c"):
        c = _col(resolve(e, ctx), ctx)
        return Vec(c.fam, c.data, ftype="e", inexact=c.id in INEXACT_IDS)
    if k == "cast":
        v = eval_rows(e["e"], ctx, n, under_fn)
        return _cast_vec(v, e, ftype=v.ftype)
    if k == "case":
        conds = [eval_rows(c, ctx, n, under_fn) for c, _ in e["cases"]]
        vals = [eval_rows(v, ctx, n, under_fn) for _, v in e["cases"]]
        dflt = eval_rows(e["default"], ctx, n, under_fn) if e.get("default") is not None else None
        fams = [v.fam for v in vals] + ([dflt.fam] if dflt else [])
        nn = [f for f in fams if f != "null"]
        rf = ("float" if "float" in nn else nn[0]) if nn else "null"
        out = []
        for r in range(n):
            res = None
            hit = False
            for c, v in zip(conds, vals):
                cv = c.data[r]
                if cv is TAINT:
                    res, hit = TAINT, True
                    break
                if cv is True:
                    res, hit = v.data[r], True
                    break
            if not hit and dflt is not None:
                res = dflt.data[r]
            out.append(_coerce(res, rf) if rf in ("int", "float") else res)
        ft = "e"
        for v in conds + vals + ([dflt] if dflt else []):
            if v.ftype == "w":
                ft = "w"
        return Vec(rf, out, ftype=ft, inexact=any(v.inexact for v in vals + ([dflt] if dflt else [])))
    if k == "fn":
        op = e["op"]
        if op in AGGREGATES or op in WINDOWS:
            if under_fn:
                raise RefReject("FunctionTypeError", "nested aggregate/window")
            return eval_window(e, ctx, n)
        args = [eval_rows(a, ctx, n, under_fn) for a in e["a"]]
        rowsiter = zip(*[a.data for a in args]) if args else iter([()] * n)
        fams = [a.fam for a in args]
        if op in SPECIAL:
            rf, out = _apply_special(op, fams, rowsiter)
        else:
            rf, out = _apply_elementwise(op, fams, rowsiter)
        ft = "w" if any(a.ftype == "w" for a in args) else "e"
        out = _taint_discontinuous(op, args, out)
        return Vec(rf, out, const=all(a.const for a in args), ftype=ft, inexact=_fn_inexact(op, rf, args))
    raise RefUnsupported(k)


def _partitions(e, ctx, n):
    pb = e.get("pb")
    if pb is None:
        ids = list(ctx.tbl.group)
        keyvecs = [ctx.tbl.cols[i].data for i in ids]
    else:
        keyvecs = [eval_rows(p, ctx, n, True).data for p in pb]
    if not keyvecs:
        return [list(range(n))]
    parts = {}
    for r in range(n):
        key = tuple(_hashable(kv[r]) for kv in keyvecs)
        if any(x is TAINT for x in key):
            raise DomainExcluded("D3", "tainted partition key")
        parts.setdefault(key, []).append(r)
    return list(parts.values())


def _arrange_keys(e, ctx, n):
    arr = e.get("arr")
    if not arr:
        return None
    keys = []
    for o in arr:
        v = eval_rows(o["e"], ctx, n, True)
        if any(x is TAINT for x in v.data):
            raise DomainExcluded("D3", "tainted arrange= key")
        keys.append(OrdKey(v.data, bool(o.get("desc")), o.get("nl")))
    return keys


def agg_value(op, vals, fam, n_rows, delim=""):
    """Aggregate a list of cell values (documented null rules)."""
    if op == "count_star":
        return n_rows
    if any(v is TAINT for v in vals):
        return TAINT
    nn = [v for v in vals if v is not None]
    if op == "count":
        return len(nn)
    if not nn:
        return None
    if op == "sum":
        if fam == "bool":
            return sum(int(v) for v in nn)
        s = nn[0]
        for v in nn[1:]:
            s = s + v
        return _coerce(s, fam)
    if op == "mean":
        return _coerce(sum(float(v) for v in nn) / len(nn), "float")
    if op == "min":
        return min(nn)
    if op == "max":
        return max(nn)
    if op == "any":
        return any(nn)
    if op == "all":
        return all(nn)
    if op == "str.join":
        return delim.join(nn)
    raise RefUnsupported(op)


def agg_result_fam(op, fam):
    if op in ("count", "count_star"):
        return "int"
    if op == "mean":
        return "float"
    if op == "sum" and fam == "bool":
        return "int"
    if op in ("any", "all"):
        return "bool"
    return fam


def _filtered_arg(e, ctx, n):
    """`filter=` restricts the rows one aggregate sees (documented)."""
    flt = e.get("flt")
    keep = [True] * n
    if flt:
        for f in flt:
            fv = eval_rows(f, ctx, n, True)
            for r in range(n):
                if fv.data[r] is TAINT:
                    keep[r] = TAINT
                elif keep[r] is not TAINT and fv.data[r] is not True:
                    keep[r] = False
    return keep


def eval_window(e, ctx: Ctx, n: int) -> Vec:
    op = e["op"]
    if ctx.verb in ("filter", "on"):
        raise RefReject("FunctionTypeError", "window/aggregate in filter/on")
    if ctx.verb == "summarize" and op in WINDOWS:
        raise RefReject("FunctionTypeError", "window in summarize")
    args = [eval_rows(a, ctx, n, True) for a in e["a"]]
    parts = _partitions(e, ctx, n)
    keys = _arrange_keys(e, ctx, n)
    out = [None] * n

    if op in AGGREGATES:
        keep = _filtered_arg(e, ctx, n)
        fam = args[0].fam if args else "int"
        rf = agg_result_fam(op, fam)
        delim = args[1].data[0] if op == "str.join" and len(args) > 1 and n else ""
        for p in parts:
            if op == "count_star":
                if any(keep[r] is TAINT for r in p):
                    v = TAINT
                else:
                    v = sum(1 for r in p if keep[r])
            else:
                vals = []
                for r in p:
                    if keep[r] is TAINT:
                        vals.append(TAINT)
                    elif keep[r]:
                        vals.append(args[0].data[r])
                    else:
                        vals.append(None)
                if op == "str.join" and keys:
                    if keys_have_unmarked_null(keys):
                        v = TAINT
                    else:
                        idx = order_indices(n, keys, p)
                        tie = any(keys_equal(keys, idx[i], idx[i + 1]) for i in range(len(idx) - 1))
                        vals = [vals[p.index(r)] for r in idx]
                        v = TAINT if tie else agg_value(op, vals, fam, len(p), delim)
                elif op == "str.join":
                    v = agg_value(op, vals, fam, len(p), delim) if (ctx.mode == "pol" and ctx.tbl.seq_ok("pol")) else TAINT
                else:
                    v = agg_value(op, vals, fam, len(p), delim)
            for r in p:
                out[r] = v
        return Vec(rf, out, ftype="w", inexact=_fn_inexact(op, rf, args))

    # genuine window functions
    order_dep = op in ORDER_SENSITIVE
    for p in parts:
        if keys:
            if keys_have_unmarked_null([OrdKey([k.vec[r] for r in p], k.desc, k.nl) for k in keys]):
                for r in p:
                    out[r] = TAINT
                continue
            idx = order_indices(n, keys, p)
            tie = any(keys_equal(keys, idx[i], idx[i + 1]) for i in range(len(idx) - 1))
        else:
            if op in ("rank", "dense_rank"):
                raise RefReject("TypeError", "rank needs arrange")
            idx = list(p)
            tie = False
            if order_dep and not ctx.tbl.seq_ok(ctx.mode):
                # D10: without arrange= the window order is the order established by the preceding
                # `arrange` verbs (docs/source/examples/window_functions.md); undefined without one
                for r in p:
                    out[r] = TAINT
                continue
        if order_dep and tie:
            for r in p:
                out[r] = TAINT
            continue
        if op == "row_number":
            for pos, r in enumerate(idx):
                out[r] = pos + 1
        elif op in ("rank", "dense_rank"):
            rank = 0
            dense = 0
            for pos, r in enumerate(idx):
                if pos == 0 or not keys_equal(keys, idx[pos - 1], r):
                    rank = pos + 1
                    dense += 1
                out[r] = rank if op == "rank" else dense
        elif op == "shift":
            x = args[0].data
            by = args[1].data[0] if n else 0
            fill = args[2].data[0] if len(args) > 2 and n else None
            for pos, r in enumerate(idx):
                src = pos - by
                out[r] = x[idx[src]] if 0 <= src < len(idx) else fill
        elif op == "cum_sum":
            x = args[0].data
            acc = None
            bad = False
            for r in idx:
                v = x[r]
                if v is TAINT:
                    bad = True
                if bad:
                    out[r] = TAINT
                    continue
                if v is not None:
                    acc = v if acc is None else acc + v
                out[r] = _coerce(acc, args[0].fam)
        else:
            raise RefUnsupported(op)
    rf = "int" if op in ("row_number", "rank", "dense_rank") else args[0].fam
    return Vec(rf, out, ftype="w", inexact=_fn_inexact(op, rf, args))


def eval_groups(e, ctx: Ctx, groups: list[list[int]], n: int) -> Vec:
    """Evaluate in group space for `summarize` (one value per group)."""
    g = len(groups)
    k = e["k"]
    if k == "map":
        return eval_groups(map_to_case(e), ctx, groups, n)
    if k == "lit":
        fam, v = lit_value(e)
        return Vec(fam, [v] * g, const=True)
    if k in ("col", "c"):
        cid = resolve(e, ctx)
        if cid not in ctx.tbl.group:
            raise RefReject("FunctionTypeError", "column neither aggregated nor grouping column")
        c = ctx.tbl.cols[cid]
        return Vec(c.fam, [c.data[p[0]] for p in groups], inexact=cid in INEXACT_IDS)
    if k == "cast":
        v = eval_groups(e["e"], ctx, groups, n)
        return _cast_vec(v, e)
    if k == "case":
        conds = [eval_groups(c, ctx, groups, n) for c, _ in e["cases"]]
        vals = [eval_groups(v, ctx, groups, n) for _, v in e["cases"]]
        dflt = eval_groups(e["default"], ctx, groups, n) if e.get("default") is not None else None
        fams = [v.fam for v in vals] + ([dflt.fam] if dflt else [])
        nn = [f for f in fams if f != "null"]
        rf = ("float" if "float" in nn else nn[0]) if nn else "null"
        out = []
        for r in range(g):
            res, hit = None, False
            for c, v in zip(conds, vals):
                if c.data[r] is TAINT:
                    res, hit = TAINT, True
                    break
                if c.data[r] is True:
                    res, hit = v.data[r], True
                    break
            if not hit and dflt is not None:
                res = dflt.data[r]
            out.append(_coerce(res, rf) if rf in ("int", "float") else res)
        return Vec(rf, out, inexact=any(v.inexact for v in vals + ([dflt] if dflt else [])))
    if k == "fn":
        op = e["op"]
        if op in WINDOWS:
            raise RefReject("FunctionTypeError", "window in summarize")
        if op in AGGREGATES:
            if e.get("pb") is not None:
                raise RefUnsupported("partition_by inside summarize")
            args = [eval_rows(a, ctx, n, True) for a in e["a"]]
            keep = _filtered_arg(e, ctx, n)
            fam = args[0].fam if args else "int"
            rf = agg_result_fam(op, fam)
            keys = _arrange_keys(e, ctx, n)
            delim = args[1].data[0] if op == "str.join" and len(args) > 1 and n else ""
            out = []
            for p in groups:
                if op == "count_star":
                    out.append(TAINT if any(keep[r] is TAINT for r in p) else sum(1 for r in p if keep[r]))
                    continue
                order = p
                if op == "str.join":
                    if keys:
                        if keys_have_unmarked_null(keys):
                            out.append(TAINT)
                            continue
                        order = order_indices(n, keys, p)
                        if any(keys_equal(keys, order[i], order[i + 1]) for i in range(len(order) - 1)):
                            out.append(TAINT)
                            continue
                    elif not (ctx.mode == "pol" and ctx.tbl.seq_ok("pol")):
                        out.append(TAINT)
                        continue
                vals = []
                for r in order:
                    if keep[r] is TAINT:
                        vals.append(TAINT)
                    elif keep[r]:
                        vals.append(args[0].data[r])
                    else:
                        vals.append(None)
                out.append(agg_value(op, vals, fam, len(p), delim))
            return Vec(rf, out, ftype="a", inexact=_fn_inexact(op, rf, args))
        args = [eval_groups(a, ctx, groups, n) for a in e["a"]]
        rowsiter = zip(*[a.data for a in args]) if args else iter([()] * g)
        fams = [a.fam for a in args]
        if op in SPECIAL:
            rf, out = _apply_special(op, fams, rowsiter)
        else:
            rf, out = _apply_elementwise(op, fams, rowsiter)
        out = _taint_discontinuous(op, args, out)
        return Vec(rf, out, const=all(a.const for a in args), inexact=_fn_inexact(op, rf, args))
    raise RefUnsupported(k)


# ---------------------------------------------------------------------------------------------
# verbs
# ---------------------------------------------------------------------------------------------


def _no_taint(vec, rule, why):
    if any(v is TAINT for v in vec):
        raise DomainExcluded(rule, why)


def v_select(t: RTable, exprs, handles, mode):
    ctx = Ctx(t, handles, mode, "select")
    ids = []
    vis_ids = {i for _, i in t.vis}
    for e in exprs:
        if e["k"] == "c":
            if e["n"] not in t.name_to_id():
                raise RefReject("ColumnNotFoundError", "select unknown")
            ids.append(t.name_to_id()[e["n"]])
            continue
        src = handles[e["t"]]
        cid = src.name_to_id()[e["n"]]
        if cid not in t.cols:
            raise RefReject("ColumnNotFoundError", "select foreign column")
        if cid not in vis_ids:
            raise RefReject("ColumnNotFoundError", "cannot select hidden column again")
        ids.append(cid)
    _ = ctx
    idn = t.id_to_name()
    new = t.copy()
    new.vis = [(idn[i], i) for i in ids]
    return new


def v_drop(t, exprs, handles, mode):
    ctx = Ctx(t, handles, mode, "drop")
    dropped = {resolve(e, ctx) for e in exprs}
    new = t.copy()
    new.vis = [(n, i) for n, i in t.vis if i not in dropped]
    return new


def v_rename(t, pairs, handles, mode):
    """pairs: list of (key, newname); key is a name string or an expression ref."""
    ctx = Ctx(t, handles, mode, "rename")
    idn = t.id_to_name()
    nm = {}
    for key, newn in pairs:
        if isinstance(key, str):
            if key not in t.name_to_id():
                raise RefReject("ValueError", "rename unknown name")
            nm[key] = newn
        else:
            cid = resolve(key, ctx)
            if cid not in idn:
                raise RefReject("ColumnNotFoundError|ValueError", "rename of hidden column")
            nm[idn[cid]] = newn
    out_names = [nm.get(n, n) for n, _ in t.vis]
    if len(set(out_names)) != len(out_names):
        raise RefReject("ValueError", "rename would cause duplicate column name")
    new = t.copy()
    new.vis = [(nm.get(n, n), i) for n, i in t.vis]
    return new


def v_mutate(t, kw, handles, mode):
    """kw: list of (name, expr). All right-hand sides are evaluated against the input table."""
    ctx = Ctx(t, handles, mode, "mutate")
    newcols = []
    for name, e in kw:
        v = eval_rows(e, ctx, t.n)
        cid = new_id()
        if v.inexact:
            INEXACT_IDS.add(cid)
        newcols.append((name, RCol(cid, v.fam, list(v.data), name, const=v.const)))
    new = t.copy()
    for name, c in newcols:
        new.cols[c.id] = c
    names = [n for n, _ in kw]
    # overwritten names are replaced; the new column goes to the end (DESIGN Appendix B)
    new.vis = [(n, i) for n, i in t.vis if n not in names]
    last = {}
    for name, c in newcols:
        last[name] = c.id
    seen = set()
    for name, c in newcols:
        if name in seen:
            continue
        seen.add(name)
        new.vis.append((name, last[name]))
    return new


def v_filter(t, preds, handles, mode):
    ctx = Ctx(t, handles, mode, "filter")
    keep = [True] * t.n
    for p in preds:
        v = eval_rows(p, ctx, t.n)
        if v.fam not in ("bool", "null"):
            raise RefReject("DataTypeError", "non-boolean predicate")
        if v.ftype == "w":
            raise RefUnsupported("window column in filter handled by caller")
        _no_taint(v.data, "D3", "tainted filter predicate")
        for r in range(t.n):
            if v.data[r] is not True:
                keep[r] = False
    return t.take([r for r in range(t.n) if keep[r]])


def v_arrange(t, orders, handles, mode):
    ctx = Ctx(t, handles, mode, "arrange")
    keys = []
    for o in orders:
        v = eval_rows(o["e"], ctx, t.n)
        _no_taint(v.data, "D3", "tainted sort key")
        keys.append(OrdKey(list(v.data), bool(o.get("desc")), o.get("nl")))
    new = t.copy()
    idx = order_indices(t.n, keys)
    # later arrange has priority, earlier order breaks ties (stable sort)
    new.ordkeys = keys + list(t.ordkeys)
    new = new.take(idx)
    if t.n <= 1:
        new.seq_defined = True
    elif keys_have_unmarked_null(keys):
        new.seq_defined = False  # D8: position of unmarked nulls is backend dependent
    else:
        tmp = RTable()
        tmp.n = t.n
        tmp.ordkeys = keys
        new.seq_defined = t.seq_defined or tmp.order_total()
    return new


def v_slice_head(t, n, offset, handles, mode):
    if t.group:
        raise RefReject("ValueError", "slice_head on grouped table")
    if n < 0 or offset < 0:
        raise DomainExcluded("D9", "negative slice arguments are undocumented")
    if not t.seq_ok(mode):
        if not (n == 0 or offset >= t.n or (offset == 0 and n >= t.n)):
            raise DomainExcluded("D9", "slice_head under an order that is not total / not defined")
    return t.take(list(range(t.n))[offset : offset + n])


def v_group_by(t, exprs, add, handles, mode):
    ctx = Ctx(t, handles, mode, "group_by")
    ids = []
    vis_ids = {i for _, i in t.vis}
    for e in exprs:
        cid = resolve(e, ctx)
        if cid not in vis_ids:
            raise RefReject("ValueError", "cannot group by non-selected column")
        ids.append(cid)
    new = t.copy()
    out = list(t.group) if add else []
    for i in ids:
        if i not in out:  # the grouping state is a set of columns
            out.append(i)
    new.group = out
    return new


def v_ungroup(t, handles, mode):
    new = t.copy()
    new.group = []
    return new


def _group_rows(t):
    keyvecs = [t.cols[i].data for i in t.group]
    groups = {}
    for r in range(t.n):
        key = tuple(_hashable(kv[r]) for kv in keyvecs)
        if any(x is TAINT for x in key):
            raise DomainExcluded("D3", "tainted group key")
        groups.setdefault(key, []).append(r)
    if not t.group:
        return [list(range(t.n))]
    return list(groups.values())


def v_summarize(t, kw, handles, mode):
    ctx = Ctx(t, handles, mode, "summarize")
    if not kw and not t.group:
        raise RefReject("ValueError", "summarize without group_by needs at least one column")
    if any(g not in {i for _, i in t.vis} for g in t.group):
        # a grouping column becomes a column of the result and needs a name (rejected like collect() does)
        raise RefReject("ValueError", "summarize of a table grouped by a hidden column")
    groups = _group_rows(t)
    names = [n for n, _ in kw]
    new = RTable()
    new.name = t.name
    new.sources = t.sources
    new.n = len(groups)
    idn = t.id_to_name()
    for gid in t.group:
        nm = idn[gid]
        if nm in names:
            continue
        c = t.cols[gid]
        new.cols[gid] = RCol(gid, c.fam, [c.data[p[0]] for p in groups], c.name0)
        new.vis.append((nm, gid))
    last = {}
    made = []
    for name, e in kw:
        v = eval_groups(e, ctx, groups, t.n)
        cid = new_id()
        if v.inexact:
            INEXACT_IDS.add(cid)
        made.append((name, RCol(cid, v.fam, list(v.data), name, const=False)))
        last[name] = cid
    seen = set()
    for name, c in made:
        new.cols[c.id] = c
        if name not in seen:
            seen.add(name)
            new.vis.append((name, last[name]))
    new.group = []
    new.ordkeys = []
    new.seq_defined = new.n <= 1
    return new


def _concat_tables(left: RTable, right: RTable, pairs, how, lpad, rpad):
    new = RTable()
    new.name = left.name
    new.sources = left.sources | right.sources
    n = len(pairs) + len(lpad) + len(rpad)
    new.n = n
    for i, c in left.cols.items():
        new.cols[i] = RCol(
            i, c.fam, [c.data[a] for a, _ in pairs] + [c.data[a] for a in lpad] + [None] * len(rpad), c.name0
        )
    for i, c in right.cols.items():
        new.cols[i] = RCol(
            i, c.fam, [c.data[b] for _, b in pairs] + [None] * len(lpad) + [c.data[b] for b in rpad], c.name0
        )
    new.group = []
    new.ordkeys = []
    new.seq_defined = n <= 1
    return new


def v_join(left: RTable, right: RTable, on, how, right_names, handles, mode):
    """`right_names`: the visible names of the right columns after the documented renaming (validated
    by names_ok() by the caller). on: list of predicate expressions (conjunction)."""
    if left.group or right.group:
        raise RefReject("ValueError", "join grouped")
    if left.sources & right.sources:
        raise RefReject("ValueError", "table occurs twice")
    nl, nr = left.n, right.n
    # build pair space
    pairs = [(a, b) for a in range(nl) for b in range(nr)]
    if on:
        tmp = RTable()
        for i, c in left.cols.items():
            tmp.cols[i] = RCol(i, c.fam, [c.data[a] for a, _ in pairs], c.name0)
        for i, c in right.cols.items():
            tmp.cols[i] = RCol(i, c.fam, [c.data[b] for _, b in pairs], c.name0)
        tmp.vis = list(left.vis)
        tmp.n = len(pairs)
        rscope = RTable()
        rscope.cols = tmp.cols
        rscope.vis = list(right.vis)
        ctx = Ctx(tmp, handles, mode, "on", extra_scope=rscope)
        keep = [True] * len(pairs)
        for p in on:
            v = eval_rows(p, ctx, len(pairs))
            if v.fam not in ("bool", "null"):
                raise RefReject("DataTypeError", "non-boolean join condition")
            _no_taint(v.data, "D3", "tainted join predicate")
            for r in range(len(pairs)):
                if v.data[r] is not True:
                    keep[r] = False
        pairs = [p for p, k in zip(pairs, keep) if k]
    lpad, rpad = [], []
    if how in ("left", "full"):
        matched = {a for a, _ in pairs}
        lpad = [a for a in range(nl) if a not in matched]
    if how == "full":
        matched = {b for _, b in pairs}
        rpad = [b for b in range(nr) if b not in matched]
    new = _concat_tables(left, right, pairs, how, lpad, rpad)
    new.vis = list(left.vis) + [(nm, i) for nm, (_, i) in zip(right_names, right.vis)]
    return new


def join_names_ok(left_names, right_orig, right_new, user_suffix, right_table_name):
    """Documented naming rule (join docstring). Returns None if fine, else a reason string."""
    allnames = list(left_names) + list(right_new)
    if len(set(allnames)) != len(allnames):
        return "names not pairwise distinct"
    if len(right_new) != len(right_orig):
        return "right column count changed"
    if user_suffix:
        if any(n != o + user_suffix for o, n in zip(right_orig, right_new)):
            return "user suffix not applied to every right column"
        return None
    coll = set(left_names) & set(right_orig)
    if not coll:
        return None if list(right_new) == list(right_orig) else "renamed without collision"
    base = "_" + right_table_name if right_table_name else "_right"
    sufs = set()
    for o, n in zip(right_orig, right_new):
        if n == o:
            continue
        if not n.startswith(o + base):
            return f"right name {n!r} is not {o!r}+suffix"
        rest = n[len(o + base) :]
        if rest and not _re.fullmatch(r"_\d+", rest):
            return f"right name {n!r} has an undocumented suffix"
        sufs.add(base + rest)
    if len(sufs) > 1:
        return "different suffixes used within one join"
    renamed = {o for o, n in zip(right_orig, right_new) if n != o}
    if renamed != set(right_orig) and renamed != coll:
        return "neither all nor exactly the colliding right columns were renamed"
    return None


def v_union(left: RTable, right: RTable, distinct, handles, mode):
    if left.group or right.group:
        raise RefReject("ValueError", "union grouped")
    if set(left.names()) != set(right.names()):
        raise RefReject("ValueError", "union needs same columns")
    rmap = right.name_to_id()
    new = RTable()
    new.name = left.name
    new.sources = left.sources | right.sources
    fams = {}
    for nm, i in left.vis:
        lf, rf = left.cols[i].fam, right.cols[rmap[nm]].fam
        if lf != rf and "null" not in (lf, rf) and {lf, rf} != {"int", "float"}:
            raise RefReject("TypeError", "incompatible union types")
        fams[nm] = _numfam([lf, rf]) if {lf, rf} <= {"int", "float", "null"} else (lf if lf != "null" else rf)
    rows = []
    for r in range(left.n):
        rows.append(tuple(_coerce(left.cols[i].data[r], fams[nm]) for nm, i in left.vis))
    for r in range(right.n):
        rows.append(tuple(_coerce(right.cols[rmap[nm]].data[r], fams[nm]) for nm, _ in left.vis))
    if distinct:
        if any(v is TAINT for row in rows for v in row):
            raise DomainExcluded("D3", "tainted cell under distinct")
        seen = set()
        out = []
        for row in rows:
            k = tuple(_hashable(v) for v in row)
            if k not in seen:
                seen.add(k)
                out.append(row)
        rows = out
    new.n = len(rows)
    for j, (nm, i) in enumerate(left.vis):
        # the result column keeps the left column's identity (only visible left columns survive)
        new.cols[i] = RCol(i, fams[nm], [row[j] for row in rows], left.cols[i].name0)
        if rmap[nm] in INEXACT_IDS:
            INEXACT_IDS.add(i)
        new.vis.append((nm, i))
    new.seq_defined = new.n <= 1
    new.ordkeys = []
    return new


def v_alias(t: RTable, keep_col_refs, name, handles, mode):
    new = t.copy()
    if name is not None:
        new.name = name
    if not keep_col_refs:
        mp = {i: new_id() for i in t.cols}
        INEXACT_IDS.update(mp[i] for i in mp if i in INEXACT_IDS)
        new.cols = {mp[i]: RCol(mp[i], c.fam, c.data, c.name0, c.const) for i, c in t.cols.items()}
        new.vis = [(n, mp[i]) for n, i in t.vis]
        new.group = [mp[i] for i in t.group]
        new.sources = frozenset([id(new)])
    if mode == "sql":
        # a subquery drops the ORDER BY of the inner SELECT: conservatively the order is unknown
        new.ordkeys = []
        new.seq_defined = new.n <= 1
    return new


def v_collect(t: RTable, keep_col_refs, handles, mode):
    new = t.copy()
    vis_ids = {i for _, i in t.vis}
    if keep_col_refs and any(g not in vis_ids for g in t.group):
        raise RefReject("ValueError", "only selected columns are collected: a hidden grouping column cannot survive")
    if keep_col_refs:
        new.cols = {i: c for i, c in t.cols.items() if i in vis_ids}
    else:
        mp = {i: new_id() for i in vis_ids}
        INEXACT_IDS.update(mp[i] for i in mp if i in INEXACT_IDS)
        new.cols = {mp[i]: RCol(mp[i], t.cols[i].fam, t.cols[i].data, t.cols[i].name0) for i in vis_ids}
        new.vis = [(n, mp[i]) for n, i in t.vis]
        new.group = []
        new.sources = frozenset([id(new)])
    new.ordkeys = []
    return new


def v_transfer(t: RTable, ref_source: RTable, handles, mode):
    """transfer_col_references(table, ref_source): data and names of `table`, column identities of
    `ref_source` (matched by name)."""
    rmap = ref_source.name_to_id()
    for n, _ in t.vis:
        if n not in rmap:
            raise RefReject("ValueError", "column missing in the reference source")
    new = t.copy()
    mp = {i: rmap[n] for n, i in t.vis}
    INEXACT_IDS.update(mp[i] for i in mp if i in INEXACT_IDS)
    new.cols = {mp[i]: RCol(mp[i], t.cols[i].fam, t.cols[i].data, t.cols[i].name0, t.cols[i].const) for i in mp}
    new.vis = [(n, mp[i]) for n, i in t.vis]
    new.group = [mp[i] for i in t.group if i in mp]
    new.sources = t.sources | ref_source.sources
    return new
