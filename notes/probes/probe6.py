import warnings; warnings.simplefilter("ignore")
import polars as pl, sqlalchemy as sqa
import pydiverse.transform as pdt
from pydiverse.transform.extended import *
df = pl.DataFrame({"k":[1,2,3], "g":[1,1,2], "x":[5,None,3], "s":["a","b","a"], "b":[True,False,None]})
eng = sqa.create_engine("sqlite://"); df.write_database("t", eng, if_table_exists="replace"); df.write_database("u", eng, if_table_exists="replace")
P = pdt.Table(df, name="t"); S = pdt.Table("t", pdt.SqlAlchemy(eng)); P2 = pdt.Table(df, name="u"); S2 = pdt.Table("u", pdt.SqlAlchemy(eng))
other = pdt.Table({"zz":[1]}, name="o")
cases = {
 "type_err_add": lambda t,u: t >> mutate(y=t.k + t.s),
 "type_err_nested": lambda t,u: t >> mutate(y=(t.k + t.s).abs() * 2),
 "type_err_case": lambda t,u: t >> mutate(y=pdt.when(t.b).then(t.k + t.s).otherwise(1)),
 "type_err_C": lambda t,u: t >> mutate(y=C.k + C.s),
 "case_incompat": lambda t,u: t >> mutate(y=pdt.when(t.b).then(t.k).otherwise(t.s)),
 "when_nonbool": lambda t,u: t >> mutate(y=pdt.when(t.k).then(1)),
 "filter_nonbool": lambda t,u: t >> filter(t.k),
 "filter_nonbool_C": lambda t,u: t >> filter(C.k + 1),
 "filter_window": lambda t,u: t >> filter(pdt.row_number(arrange=t.k) > 1),
 "filter_agg": lambda t,u: t >> filter(t.x.sum() > 1),
 "filter_agg_nested": lambda t,u: t >> filter((t.x.sum() + 1 > 1) & t.b),
 "summ_window": lambda t,u: t >> summarize(y=t.x.shift(1, arrange=t.k)),
 "summ_window_nested": lambda t,u: t >> summarize(y=t.x.shift(1, arrange=t.k).sum()),
 "summ_nonagg": lambda t,u: t >> group_by(t.g) >> summarize(y=t.x),
 "summ_nonagg_nested": lambda t,u: t >> group_by(t.g) >> summarize(y=t.x + t.x.sum()),
 "summ_nonagg_C": lambda t,u: t >> group_by(t.g) >> summarize(y=C.x),
 "nested_agg": lambda t,u: t >> mutate(y=t.x.sum().max()),
 "nested_agg_summ": lambda t,u: t >> summarize(y=(t.x.sum()+1).max()),
 "nested_win": lambda t,u: t >> mutate(y=t.x.shift(1, arrange=t.k).cum_sum(arrange=t.k)),
 "agg_partition_in_summ": lambda t,u: t >> group_by(t.g) >> summarize(y=t.x.sum(partition_by=t.g)),
 "unknown_col_C": lambda t,u: t >> mutate(y=C.nope),
 "unknown_col_getattr": lambda t,u: t.nope,
 "unknown_select_str": lambda t,u: t >> select("nope"),
 "unknown_select_C": lambda t,u: t >> select(C.nope),
 "foreign_col": lambda t,u: t >> mutate(y=other.zz),
 "foreign_col_select": lambda t,u: t >> select(other.zz),
 "foreign_col_filter": lambda t,u: t >> filter(other.zz > 1),
 "foreign_col_arrange": lambda t,u: t >> arrange(other.zz),
 "foreign_col_groupby": lambda t,u: t >> group_by(other.zz),
 "foreign_col_rename": lambda t,u: t >> rename({other.zz: "q"}),
 "foreign_col_drop": lambda t,u: t >> drop(other.zz),
 "reselect_hidden": lambda t,u: t >> select(t.k) >> select(t.x),
 "reselect_hidden_C": lambda t,u: t >> select(t.k) >> select(C.x),
 "reselect_overwritten": lambda t,u: t >> mutate(x=1) >> select(t.x),
 "groupby_hidden": lambda t,u: t >> select(t.k) >> group_by(t.g),
 "rename_dup": lambda t,u: t >> rename({"k":"g"}),
 "rename_dup2": lambda t,u: t >> rename({"k":"z","g":"z"}),
 "rename_unknown": lambda t,u: t >> rename({"nope":"z"}),
 "rename_hidden": lambda t,u: t >> select(t.k) >> rename({t.x:"z"}),
 "join_suffix_dup": lambda t,u: t >> mutate(k_r=1) >> join(u, t.k==u.k, "inner", suffix="_r"),
 "join_grouped": lambda t,u: t >> group_by(t.g) >> join(u, t.k==u.k, "inner"),
 "join_grouped_r": lambda t,u: t >> join(u >> group_by(u.g), t.k==u.k, "inner"),
 "join_self": lambda t,u: t >> join(t, t.k==t.k, "inner"),
 "join_self_derived": lambda t,u: t >> join(t >> filter(t.k>1), t.k==t.k, "inner"),
 "join_diff_backend": lambda t,u: t >> join(other if t is S else S2, "k", "inner"),
 "join_nonbool": lambda t,u: t >> join(u, t.k + u.k, "inner"),
 "join_window_on": lambda t,u: t >> join(u, t.k == pdt.row_number(arrange=u.k), "inner"),
 "join_agg_on": lambda t,u: t >> join(u, t.k == u.k.max(), "inner"),
 "join_foreign_on": lambda t,u: t >> join(u, t.k == other.zz, "inner"),
 "join_full_ineq": lambda t,u: t >> join(u, t.k < u.k, "full"),
 "join_bad_how": lambda t,u: t >> join(u, t.k == u.k, "outer"),
 "union_grouped": lambda t,u: t >> group_by(t.g) >> union(u),
 "union_diff_cols": lambda t,u: t >> select(t.k) >> union(u),
 "union_incompat": lambda t,u: t >> select(t.k) >> union(u >> select(u.s) >> rename({"s":"k"})),
 "union_self": lambda t,u: t >> union(t),
 "slice_grouped": lambda t,u: t >> group_by(t.g) >> slice_head(1),
 "marker_in_mutate": lambda t,u: t >> mutate(y=t.k.descending()),
 "marker_nested": lambda t,u: t >> mutate(y=t.k.nulls_last() + 1),
 "marker_nested_arrange": lambda t,u: t >> arrange(t.k.nulls_last() + 1),
 "marker_in_filter": lambda t,u: t >> filter(t.b.nulls_first()),
 "marker_in_summ": lambda t,u: t >> summarize(y=t.k.descending().sum()),
 "marker_in_partition": lambda t,u: t >> mutate(y=t.x.sum(partition_by=t.g.descending())),
 "marker_in_case": lambda t,u: t >> mutate(y=pdt.when(t.b).then(t.k.descending()).otherwise(1)),
 "marker_in_cast": lambda t,u: t >> mutate(y=t.k.descending().cast(pdt.Float64())),
 "bad_cast": lambda t,u: t >> mutate(y=t.s.cast(pdt.Bool())),
 "bad_cast2": lambda t,u: t >> mutate(y=t.b.cast(pdt.String())),
 "bad_cast_C": lambda t,u: t >> mutate(y=C.s.cast(pdt.Date())),
 "const_param_col": lambda t,u: t >> mutate(y=t.s.str.starts_with(t.s)),
 "const_param_col2": lambda t,u: t >> mutate(y=t.x.round(t.k)),
 "mutate_pyobj": lambda t,u: t >> mutate(y=object()),
 "summ_empty_ungrouped": lambda t,u: t >> summarize(),
 "bool_of_expr": lambda t,u: t >> filter(t.k > 1 and t.k < 3),
 "arrange_str": lambda t,u: t >> arrange("k"),
 "arrange_lit": lambda t,u: t >> arrange(1),
 "groupby_expr": lambda t,u: t >> group_by(t.k + 1),
 "select_expr": lambda t,u: t >> select(t.k + 1),
 "list_nonlist_case": lambda t,u: t >> mutate(y=pdt.when(t.b).then(pdt.lit([1])).otherwise(1)),
}
for name, fn in cases.items():
    res = []
    for t,u in ((P,P2),(S,S2)):
        try:
            r = fn(t,u)
            try:
                d = r >> export(Polars()) if isinstance(r, pdt.Table) else r
                res.append("ACCEPTED+ok")
            except Exception as e:
                res.append(f"ACCEPTED then export {type(e).__name__}: {str(e)[:60]}")
        except Exception as e:
            res.append(f"{type(e).__name__}")
    flag = "" if res[0]==res[1] else "   <<<<< DIFF"
    print(f"{name:24} P={res[0]:40} S={res[1]}{flag}")
