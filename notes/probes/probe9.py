import warnings; warnings.simplefilter("ignore")
import polars as pl, sqlalchemy as sqa, datetime
import pydiverse.transform as pdt
from pydiverse.transform.extended import mutate, export, build_query, Polars, select, alias, collect, C, join, filter, rename, group_by, summarize, arrange, ungroup, slice_head, union, drop, left_join, columns
from pydiverse.transform import Pandas, Dict, DictOfLists, ListOfDicts, Scalar, transfer_col_references
df = pl.DataFrame({"i8": pl.Series([1,2,None], dtype=pl.Int8), "u16": pl.Series([1,2,3], dtype=pl.UInt16), "i":[1,None,3], "f32": pl.Series([1.5,2.5,None], dtype=pl.Float32), "f":[1.5,None,2.0], "b":[True,None,False], "s":["a",None,"c"],
   "d":[datetime.date(2020,1,1),None,datetime.date(2021,1,1)], "dt":[datetime.datetime(2020,1,1,1),None,datetime.datetime(2021,1,1)], "n":[None,None,None]})
P = pdt.Table(df, name="t")
print({c.name: (str(c.dtype()), str(df.schema[c.name])) for c in P})
exprs = {"i8+i8": lambda t: t.i8+t.i8, "i8+1": lambda t: t.i8+1, "i8+i": lambda t: t.i8+t.i, "u16*u16": lambda t: t.u16*t.u16, "i8/i8": lambda t: t.i8/t.i8, "i8//i8": lambda t: t.i8//t.i8,
  "f32+f32": lambda t: t.f32+t.f32, "f32+1.0": lambda t: t.f32+1.0, "f32+f": lambda t: t.f32+t.f, "i8+f32": lambda t: t.i8+t.f32, "i+1.5": lambda t: t.i + 1.5, "sum_i8": lambda t: t.i8.sum(), "mean_i8": lambda t: t.i8.mean(), "sum_b": lambda t: t.b.sum(), "b+b": lambda t: t.b+t.b,
  "max_i8": lambda t: t.i8.max(), "count": lambda t: t.i8.count(), "abs_i8": lambda t: t.i8.abs(), "neg_u16": lambda t: -t.u16, "case_i8_i": lambda t: pdt.when(t.b).then(t.i8).otherwise(t.i), "case_i8_f": lambda t: pdt.when(t.b).then(t.i8).otherwise(1.5),
  "case_null": lambda t: pdt.when(t.b).then(None).otherwise(None), "case_i8_lit": lambda t: pdt.when(t.b).then(t.i8).otherwise(3), "coalesce_i8_i": lambda t: pdt.coalesce(t.i8, t.i), "fill_i8": lambda t: t.i8.fill_null(0), "max_h": lambda t: pdt.max(t.i8, t.i, 3),
  "n": lambda t: t.n, "n+1": lambda t: t.n + 1, "n_isnull": lambda t: t.n.is_null(), "lit_none": lambda t: pdt.lit(None), "lit1": lambda t: pdt.lit(1), "lit_i8": lambda t: pdt.lit(1, pdt.Int8()), "slen": lambda t: t.s.str.len(), "yr": lambda t: t.d.dt.year(),
  "d-d": lambda t: t.d - t.d, "dt-dt": lambda t: t.dt - t.dt, "cumsum_i8": lambda t: t.i8.cum_sum(arrange=t.u16), "shift_i8": lambda t: t.i8.shift(1, arrange=t.u16), "rn": lambda t: pdt.row_number(arrange=t.u16), "round_i8": lambda t: t.i8.round(), "pow_i": lambda t: t.i ** 2, "i8_pow": lambda t: t.i8 ** t.i8,
  "clip_i8": lambda t: t.i8.clip(0, 1), "isin": lambda t: t.i8.is_in(1, 2), "cast_i8_i16": lambda t: t.i8.cast(pdt.Int16()), "min_f32": lambda t: t.f32.min(), "mean_f32": lambda t: t.f32.mean(), "floor_f32": lambda t: t.f32.floor(), "hsum": lambda t: pdt.sum(t.i8, t.i8)}
for n, f in exprs.items():
    try:
        e = f(P); r = P >> mutate(y=e) >> select(C.y) >> export(Polars())
        st = e.dtype(); dy = r.schema["y"]
        try: exp = pdt.types.Dtype.from_polars(dy) if hasattr(pdt.types,'Dtype') else None
        except Exception: exp=None
        from pydiverse.transform._internal.tree import types as T
        sb = T.without_const(st)
        okk = (exp == sb) or (type(sb) in (pdt.Int, pdt.Float) and type(exp).is_subtype(sb))
        print(f"{n:14} static={str(st):16} exported={str(dy):28} {'OK' if okk else '<<<<<< MISMATCH'}")
    except Exception as ex:
        print(f"{n:14} ERR {type(ex).__name__}: {str(ex)[:100]}")
