import warnings; warnings.simplefilter("ignore")
import polars as pl, sqlalchemy as sqa
import pydiverse.transform as pdt
from pydiverse.transform.extended import *
eng = sqa.create_engine("sqlite://")
def two(ldf, rdf, ln="l", rn="u"):
    ldf.write_database(ln, eng, if_table_exists="replace"); rdf.write_database(rn, eng, if_table_exists="replace")
    return (pdt.Table(ldf, name=ln), pdt.Table(rdf, name=rn)), (pdt.Table(ln, pdt.SqlAlchemy(eng)), pdt.Table(rn, pdt.SqlAlchemy(eng)))
def run(name, ldf, rdf, fn):
    for lab, (t,u) in zip("PS", two(ldf, rdf)):
        try:
            r = fn(t,u); d = r >> export(Polars())
            print(f"{name:22} {lab} cols={r >> columns()} export={d.columns} rows={sorted(d.rows(), key=lambda r: tuple((x is None, x) for x in r))[:4]}")
        except Exception as e: print(f"{name:22} {lab} {type(e).__name__}: {str(e)[:160]}")
L = pl.DataFrame({"a":[1,2], "b":[3,4], "a_u":[5,6], "b_u_1":[7,8], "a_u_2":[9,10]})
R = pl.DataFrame({"a":[1,2], "b":[3,9]})
run("suffix_counter", L, R, lambda t,u: t >> join(u, t.a == u.a, "inner"))
L2 = pl.DataFrame({"a":[1,2], "b":[3,4], "a_u":[5,6]})
run("suffix_counter2", L2, R, lambda t,u: t >> join(u, (t.a == u.a) & (t.b == u.b), "inner"))
run("suffix_only_join_cols", pl.DataFrame({"a":[1,2],"c":[0,0]}), R, lambda t,u: t >> join(u, t.a == u.a, "left"))
run("suffix_nonjoin_clash", pl.DataFrame({"a":[1,2],"b":[0,0]}), R, lambda t,u: t >> join(u, t.a == u.a, "left"))
run("user_suffix", pl.DataFrame({"a":[1,2],"c":[0,0]}), R, lambda t,u: t >> join(u, t.a == u.a, "left", suffix="_x"))
run("hidden_hidden", pl.DataFrame({"a":[1,2],"h":[0,0]}), pl.DataFrame({"a":[1,2],"h":[7,8]}), lambda t,u: t >> select(t.a) >> join(u >> select(u.a), t.a == u.a, "inner") >> mutate(p=t.h, q=u.h))
run("visible_hidden", pl.DataFrame({"a":[1,2],"h":[0,0]}), pl.DataFrame({"a":[1,2],"h":[7,8]}), lambda t,u: t >> join(u >> select(u.a), t.a == u.a, "inner") >> mutate(p=t.h, q=u.h))
run("hidden_visible", pl.DataFrame({"a":[1,2],"h":[0,0]}), pl.DataFrame({"a":[1,2],"h":[7,8]}), lambda t,u: t >> select(t.a) >> join(u, t.a == u.a, "inner") >> mutate(p=t.h, q=u.h))
run("right_unnamed_expr", pl.DataFrame({"a":[1,2],"c":[0,0]}), R, lambda t,u: t >> join(u, t.a + 1 == u.a * 1, "left"))
run("on_right_first", pl.DataFrame({"a":[1,2],"c":[0,0]}), R, lambda t,u: t >> join(u, u.a == t.a, "left"))
run("on_mixed_sides", pl.DataFrame({"a":[1,2],"c":[0,0]}), R, lambda t,u: t >> join(u, t.a + u.b == 4, "inner"))
run("on_left_only_pred", pl.DataFrame({"a":[1,2],"c":[0,0]}), R, lambda t,u: t >> join(u, (t.a == u.a) & (t.c == 0), "left"))
run("on_const_true", pl.DataFrame({"a":[1,2],"c":[0,0]}), R, lambda t,u: t >> join(u, pdt.lit(True), "inner"))
run("full_nulls", pl.DataFrame({"a":[1,None,3],"c":[0,0,0]}), pl.DataFrame({"a":[1,None,4],"b":[3,9,9]}), lambda t,u: t >> join(u, t.a == u.a, "full"))
run("join_summ_alias", pl.DataFrame({"a":[1,1,3],"c":[1,2,3]}), R, lambda t,u: t >> group_by(t.a) >> summarize(s=t.c.sum()) >> alias("s") >> join(u, C.a == u.a, "left"))
run("join_then_summ", pl.DataFrame({"a":[1,1,3],"c":[1,2,3]}), R, lambda t,u: t >> join(u, t.a == u.a, "left") >> group_by(u.b) >> summarize(n=pdt.count(), s=t.c.sum()))
run("join_empty_right", pl.DataFrame({"a":[1,1,3],"c":[1,2,3]}), R.filter(pl.col("a")>99), lambda t,u: t >> join(u, t.a == u.a, "left"))
run("union_hidden_leak", pl.DataFrame({"a":[1,2],"h":[0,0]}), pl.DataFrame({"h":[5,5],"a":[7,8]}), lambda t,u: t >> select(t.a) >> union(u >> select(u.a)) >> mutate(p=t.h))
run("union_types", pl.DataFrame({"a":pl.Series([1,2],dtype=pl.Int8)}), pl.DataFrame({"a":[1.5,2.5]}), lambda t,u: t >> union(u))
run("union_null_distinct", pl.DataFrame({"a":[1,None,None]}), pl.DataFrame({"a":[None,1,2]}), lambda t,u: t >> union(u, distinct=True))
run("union_chain", pl.DataFrame({"a":[1,2]}), pl.DataFrame({"a":[2,3]}), lambda t,u: t >> union(u) >> union(t >> alias("tt"), distinct=True))
