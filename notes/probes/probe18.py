import warnings; warnings.simplefilter("ignore")
import polars as pl, sqlalchemy as sqa
import pydiverse.transform as pdt
from pydiverse.transform.extended import *
from pydiverse.transform.errors import SubqueryError
df = pl.DataFrame({"k":[1,2,3,4,5,6,7,8], "g":[1,1,2,2,2,None,None,3], "x":[5,None,3,3,1,9,None,2]})
df2 = pl.DataFrame({"k":[1,2,2,9,None], "y":[10,20,21,90,0]})
eng = sqa.create_engine("sqlite://"); df.write_database("t", eng); df2.write_database("u", eng)
def mk(): return (pdt.Table(df, name="t"), pdt.Table(df2, name="u")), (pdt.Table("t", pdt.SqlAlchemy(eng)), pdt.Table("u", pdt.SqlAlchemy(eng)))
key = lambda r: tuple((x is None, x) for x in r)
def cmpr(name, fn):
    (P,P2),(S,S2) = mk()
    try: p = sorted((fn(P,P2) >> export(Polars())).rows(), key=key)
    except Exception as e: p = f"{type(e).__name__}"
    try: s = sorted((fn(S,S2) >> export(Polars())).rows(), key=key)
    except Exception as e: s = f"{type(e).__name__}: {str(e)[:80]}"
    print(f"{name:34} {'SAME' if p==s else 'DIFF'} {'' if p==s else (p if isinstance(p,str) else 'ok', s if isinstance(s,str) else 'ok')}")
cmpr("slice>alias>filter", lambda t,u: t >> arrange(t.k) >> slice_head(5) >> alias() >> filter(C.x > 2))
cmpr("slice>alias>summ", lambda t,u: t >> arrange(t.k) >> slice_head(5) >> alias() >> summarize(s=C.x.sum()))
cmpr("slice>alias>arrange", lambda t,u: t >> arrange(t.k) >> slice_head(5) >> alias() >> arrange(C.x.nulls_last(), C.k))
cmpr("slice>alias>group_by>summ", lambda t,u: t >> arrange(t.k) >> slice_head(5) >> alias() >> group_by(C.g) >> summarize(s=C.x.sum()))
cmpr("win>alias>filter", lambda t,u: t >> mutate(r=pdt.row_number(arrange=t.k)) >> alias() >> filter(C.r > 2))
cmpr("win>alias>win", lambda t,u: t >> mutate(m=t.x.max()) >> alias() >> mutate(m2=C.m.min()))
cmpr("summ>alias>summ", lambda t,u: t >> group_by(t.g, t.k) >> summarize(a=t.x.sum()) >> alias() >> group_by(C.g) >> summarize(b=C.a.sum()))
cmpr("summ>alias>win", lambda t,u: t >> group_by(t.g) >> summarize(a=t.x.sum()) >> alias() >> mutate(tot=C.a.sum()))
cmpr("win>alias>summ", lambda t,u: t >> mutate(r=pdt.row_number(arrange=t.k)) >> alias() >> group_by(C.g) >> summarize(m=C.r.max()))
cmpr("win>alias>join", lambda t,u: t >> mutate(sx=t.x.sum()) >> alias() >> join(u, C.k == u.k, "inner"))
cmpr("join(right sliced>alias)", lambda t,u: t >> join(u >> arrange(u.y) >> slice_head(2) >> alias("v"), t.k == C.k_v if False else t.k == t.k, "left") if False else t >> join(v := u >> arrange(u.y) >> slice_head(2) >> alias("v"), t.k == v.k, "left"))
cmpr("join(right summ>alias)", lambda t,u: t >> join(v := u >> group_by(u.k) >> summarize(n=pdt.count()) >> alias("v"), t.k == v.k, "left"))
cmpr("join(right const>alias) left", lambda t,u: t >> join(v := u >> mutate(c=1) >> alias("v"), t.k == v.k, "left"))
cmpr("full(filtered left>alias)", lambda t,u: (a := t >> filter(t.k > 2) >> alias("a")) >> join(u, a.k == u.k, "full"))
cmpr("full(filtered right>alias)", lambda t,u: t >> join(v := u >> filter(u.k > 1) >> alias("v"), t.k == v.k, "full"))
cmpr("slice>alias>join", lambda t,u: (a := t >> arrange(t.k) >> slice_head(3) >> alias("a")) >> join(u, a.k == u.k, "left"))
cmpr("slice>alias>union", lambda t,u: t >> select(t.k) >> arrange(t.k) >> slice_head(2) >> alias() >> union(u >> select(u.k)))
cmpr("summ>alias>union", lambda t,u: t >> group_by(t.k) >> summarize(n=pdt.count()) >> alias() >> union(u >> group_by(u.k) >> summarize(n=pdt.count()) >> alias()))
cmpr("alias far before (slice..mutate..filter)", lambda t,u: t >> alias() >> arrange(C.k) >> slice_head(5) >> mutate(z=C.x+1) >> filter(C.z > 2))
cmpr("alias keep refs", lambda t,u: t >> arrange(t.k) >> slice_head(5) >> alias(keep_col_refs=True) >> filter(t.x > 2))
cmpr("double subquery", lambda t,u: t >> arrange(t.k) >> slice_head(6) >> alias() >> filter(C.x > 1) >> arrange(C.k) >> slice_head(2) >> alias() >> summarize(n=pdt.count()))
