import warnings; warnings.simplefilter("ignore")
import polars as pl, sqlalchemy as sqa, traceback, itertools
import pydiverse.transform as pdt
from pydiverse.transform.extended import *
from pydiverse.transform._internal.ops import ops
from pydiverse.transform._internal.ops.op import Operator
from pydiverse.transform._internal.tree import types as T
from pydiverse.common import *
U = [Int(),Int8(),Int16(),Int32(),Int64(),UInt8(),UInt16(),UInt32(),UInt64(),Float(),Float32(),Float64(),Decimal(),Decimal(10,2),String(),String(5),Enum("a","b"),Bool(),Date(),Datetime(),Time(),Duration(),NullType(),List(Int64()),List(String())]
U2 = U + [T.Const(t) for t in U]
allops = {k:v for k,v in vars(ops).items() if isinstance(v, Operator)}
print(len(allops), "operators;", len(U2), "types")
import collections
errs = collections.Counter(); n=0; ok=0; rej=0
examples = {}
for name, op in allops.items():
    arities = sorted({len(s.types) for s in op.signatures} | ({len(s.types)+1 for s in op.signatures if s.is_vararg}))
    for ar in arities:
        if ar > 2:
            # sample
            import random; random.seed(1)
            tuples = [tuple(random.choice(U2) for _ in range(ar)) for _ in range(3000)]
        else:
            tuples = itertools.product(U2, repeat=ar)
        for tup in tuples:
            n+=1
            try:
                r = op.return_type(list(tup))
                if r is None: rej+=1
                else: ok+=1
            except Exception as e:
                key=(name, type(e).__name__)
                errs[key]+=1
                examples.setdefault(key, (tup, str(e)[:100]))
print(n, ok, rej)
for k,v in errs.items(): print(k, v, examples[k])
