import warnings; warnings.simplefilter("ignore")
import polars as pl, sqlalchemy as sqa
import pydiverse.transform as pdt
from pydiverse.transform.extended import *
df = pl.DataFrame({"k":[1,2,3,4,5,6,7,8], "g":[1,1,2,2,2,None,None,3], "x":[5,None,3,3,1,9,None,2], "s":["a","b","a",None,"c","b","a","z"]})
df2 = pl.DataFrame({"k":[1,2,2,9,None], "y":[10,20,21,90,0], "s":["a","b","q",None,"a"]})
eng = sqa.create_engine("sqlite://")
df.write_database("t", eng, if_table_exists="replace"); df2.write_database("u", eng, if_table_exists="replace")
P = pdt.Table(df, name="t"); S = pdt.Table("t", pdt.SqlAlchemy(eng)); P2 = pdt.Table(df2, name="u"); S2 = pdt.Table("u", pdt.SqlAlchemy(eng))
def run(name, fn):
    out = {}
    for lab, (t,u) in (("P",(P,P2)),("S",(S,S2))):
        try: out[lab] = fn(t,u) >> export(Polars())
        except Exception as ex: out[lab] = f"{type(ex).__name__}: {str(ex)[:100]}"
    p, s = out["P"], out["S"]
    if isinstance(p, pl.DataFrame) and isinstance(s, pl.DataFrame):
        key = lambda r: tuple((x is None, x) for x in r)
        same_ms = sorted(p.rows(), key=key) == sorted(s.rows(), key=key)
        print(f"{name:30} cols={p.columns==s.columns} multiset={same_ms}")
        if not same_ms:
            print(sorted(p.rows(), key=key)); print(sorted(s.rows(), key=key)); print(fn(S,S2) >> build_query())
    else:
        print(f"{name:30} P={p if isinstance(p,str) else 'ok'} | S={s if isinstance(s,str) else 'ok'}")
run("window_then_filter_other", lambda t,u: t >> mutate(r=pdt.row_number(arrange=t.k)) >> filter(t.x > 2))
run("aggwin_then_filter_other", lambda t,u: t >> mutate(sx=t.x.sum()) >> filter(t.x > 2))
run("grouped_aggwin_then_filter", lambda t,u: t >> group_by(t.g) >> mutate(sx=t.x.sum()) >> ungroup() >> filter(t.k > 2))
run("window_then_summarize", lambda t,u: t >> mutate(r=pdt.row_number(arrange=t.k)) >> group_by(t.g) >> summarize(m=C.r.max()))
run("window_then_slice", lambda t,u: t >> mutate(sx=t.x.sum()) >> arrange(t.k) >> slice_head(2))
run("window_then_join_filter", lambda t,u: t >> mutate(sx=t.x.sum()) >> join(u, t.k == u.k, "inner"))
run("filter_then_join_left_r", lambda t,u: t >> join(u >> filter(u.y > 15), t.k == u.k, "left") >> filter(t.k < 5))
run("join_then_filter_right", lambda t,u: t >> join(u, t.k == u.k, "left") >> filter(u.y > 15))
run("join_then_window", lambda t,u: t >> join(u, t.k == u.k, "left") >> mutate(c=pdt.count()))
run("filtered_right_inner_window", lambda t,u: t >> join(u >> filter(u.y > 15), t.k == u.k, "inner") >> mutate(c=pdt.count()))
run("summ_then_window", lambda t,u: t >> group_by(t.g) >> summarize(sx=t.x.sum()) >> mutate(tot=C.sx.sum()))
run("summ_then_arrange_slice", lambda t,u: t >> group_by(t.g) >> summarize(sx=t.x.sum()) >> arrange(C.g.nulls_last()) >> slice_head(2))
run("arrange_then_summ", lambda t,u: t >> arrange(t.k) >> group_by(t.g) >> summarize(sx=t.x.sum()))
run("summ_filter_mutate", lambda t,u: t >> group_by(t.g) >> summarize(sx=t.x.sum()) >> filter(C.sx > 3) >> mutate(z=C.sx+1))
run("filter_summ_filter", lambda t,u: t >> filter(t.k>1) >> group_by(t.g) >> summarize(sx=t.x.sum()) >> filter(C.g > 1))
run("mutate_const_groupby", lambda t,u: t >> mutate(c=1) >> group_by(C.c) >> summarize(n=pdt.count()))
run("groupby_computed", lambda t,u: t >> mutate(h=t.k % 2) >> group_by(C.h) >> summarize(n=pdt.count(), sx=t.x.sum()))
run("groupby_bool", lambda t,u: t >> mutate(h=t.x > 2) >> group_by(C.h) >> summarize(n=pdt.count()))
run("union_then_window", lambda t,u: t >> select(t.k) >> union(u >> select(u.k)) >> mutate(c=pdt.count()))
run("union_then_summ", lambda t,u: t >> select(t.k) >> union(u >> select(u.k)) >> group_by(C.k) >> summarize(c=pdt.count()))
run("filtered_union", lambda t,u: t >> select(t.k) >> filter(t.k > 2) >> union(u >> select(u.k) >> filter(u.k < 9)))
run("slice_union", lambda t,u: t >> select(t.k) >> arrange(t.k) >> slice_head(2) >> union(u >> select(u.k)))
run("summ_union", lambda t,u: t >> group_by(t.k) >> summarize(n=pdt.count()) >> union(u >> group_by(u.k) >> summarize(n=pdt.count())))
run("join_join", lambda t,u: t >> join(u, t.k == u.k, "left") >> join(v := u >> alias("v"), t.k == v.k, "left"))
run("full_then_filter", lambda t,u: t >> join(u, t.k == u.k, "full") >> filter(t.k.is_null()))
run("left_filter_left", lambda t,u: t >> filter(t.k > 2) >> join(u, t.k == u.k, "left"))
run("full_filtered_left", lambda t,u: t >> filter(t.k > 2) >> join(u, t.k == u.k, "full"))
run("full_filtered_right", lambda t,u: t >> join(u >> filter(u.k > 1), t.k == u.k, "full"))
run("left_right_sliced", lambda t,u: t >> join(u >> arrange(u.y) >> slice_head(2), t.k == u.k, "left"))
run("left_right_summ", lambda t,u: t >> join(u >> group_by(u.k) >> summarize(n=pdt.count()), t.k == u.k, "left"))
run("left_right_arranged", lambda t,u: t >> join(u >> arrange(u.y), t.k == u.k, "left"))
run("left_arranged", lambda t,u: t >> arrange(t.x.nulls_last(), t.k) >> join(u, t.k == u.k, "left"))
run("left_right_mutated_const", lambda t,u: t >> join(u >> mutate(c=1), t.k == u.k, "left"))
run("left_sliced_left", lambda t,u: t >> arrange(t.k) >> slice_head(3) >> join(u, t.k == u.k, "left"))
