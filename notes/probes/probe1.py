import polars as pl, sqlalchemy as sqa
import pydiverse.transform as pdt
from pydiverse.transform.extended import *
print(pl.__version__, sqa.__version__)
import sqlite3; print(sqlite3.sqlite_version)
df = pl.DataFrame({"a":[1,2,None,4],"b":["x","y","z",None],"g":[1,1,2,2]})
t = pdt.Table(df, name="t")
eng = sqa.create_engine("sqlite://")
df.write_database("t", eng, if_table_exists="replace")
s = pdt.Table("t", pdt.SqlAlchemy(eng))
for tb in (t, s):
    r = tb >> mutate(a=tb.a+1)
    print(r >> columns(), (r >> export(Polars())).columns)
    print(r >> export(Polars()))
# C10 probe
e = t.a.sum()
r1 = t >> group_by(t.g) >> mutate(y=e) >> ungroup() >> export(Polars())
r2 = t >> mutate(z=e) >> export(Polars())
print(r1, r2, e.context_kwargs)
