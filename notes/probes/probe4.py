import warnings; warnings.simplefilter("ignore")
import polars as pl, sqlalchemy as sqa, traceback
import pydiverse.transform as pdt
from pydiverse.transform.extended import *
df = pl.DataFrame({"k":[1,2,3,4,5,6,7,8], "g":[1,1,2,2,2,None,None,3], "x":[5,None,3,3,1,9,None,2], "s":["a","b","a",None,"c","b","a","z"]})
df2 = pl.DataFrame({"k":[1,2,2,9,None], "y":[10,20,21,90,0], "s":["a","b","q",None,"a"]})
eng = sqa.create_engine("sqlite://")
sqa.event.listen(eng, "connect", lambda c, r: c.execute("PRAGMA case_sensitive_like=ON"))
df.write_database("t", eng, if_table_exists="replace"); df2.write_database("u", eng, if_table_exists="replace")
P = pdt.Table(df, name="t"); S = pdt.Table("t", pdt.SqlAlchemy(eng)); P2 = pdt.Table(df2, name="u"); S2 = pdt.Table("u", pdt.SqlAlchemy(eng))
def run(name, fn, sort=True):
    out = {}
    for lab, (t,u) in (("P",(P,P2)),("S",(S,S2))):
        try:
            r = fn(t,u)
            d = r >> export(Polars())
            out[lab] = d
        except Exception as ex:
            out[lab] = f"{type(ex).__name__}: {str(ex)[:200]}"
    p, s = out["P"], out["S"]
    if isinstance(p, pl.DataFrame) and isinstance(s, pl.DataFrame):
        same_cols = p.columns == s.columns
        pr, sr = p.rows(), s.rows()
        key = lambda r: tuple((x is None, x) for x in r)
        same_seq = pr == sr
        same_ms = sorted(pr, key=key) == sorted(sr, key=key)
        print(f"{name:28} cols={same_cols} seq={same_seq} multiset={same_ms}")
        if not same_ms or not same_cols:
            print(p, s)
            try: print(fn(S,S2) >> build_query())
            except Exception as e: print(e)
    else:
        print(f"{name:28} P={p if isinstance(p,str) else 'ok'} | S={s if isinstance(s,str) else 'ok'}")
run("doc_equiv_lhs", lambda t,u: t >> group_by(t.g) >> arrange(t.k.descending()) >> mutate(sh=t.x.shift(1)) >> ungroup())
run("doc_equiv_rhs", lambda t,u: t >> mutate(sh=t.x.shift(1, partition_by=t.g, arrange=t.k.descending())))
run("rownum_noarr", lambda t,u: t >> mutate(r=pdt.row_number()))
run("arrange_then_rownum", lambda t,u: t >> arrange(t.k.descending()) >> mutate(r=pdt.row_number()))
run("summ_grouped", lambda t,u: t >> group_by(t.g) >> summarize(n=pdt.count(), sx=t.x.sum(), cx=t.x.count(), mx=t.x.mean(), anyb=(t.x>2).any()))
run("summ_empty", lambda t,u: t >> filter(t.k > 100) >> summarize(n=pdt.count(), sx=t.x.sum(), mn=t.x.min()))
run("summ_empty_grouped", lambda t,u: t >> filter(t.k > 100) >> group_by(t.g) >> summarize(n=pdt.count(), sx=t.x.sum()))
run("summ_filter_after", lambda t,u: t >> group_by(t.g) >> summarize(sx=t.x.sum()) >> filter(C.sx > 4))
run("summ_filter_arg", lambda t,u: t >> group_by(t.g) >> summarize(sx=t.x.sum(filter=t.k>2), c=pdt.count(filter=t.x>2)))
run("summ_then_mutate", lambda t,u: t >> group_by(t.g) >> summarize(sx=t.x.sum()) >> mutate(z=C.sx*2))
run("summ_expr_group", lambda t,u: t >> group_by(t.g) >> summarize(z=t.x.sum()+t.g))
run("filter_after_window", lambda t,u: t >> mutate(r=pdt.row_number(arrange=t.k)) >> filter(C.r > 2))
run("filter_after_window_alias", lambda t,u: t >> mutate(r=pdt.row_number(arrange=t.k)) >> alias() >> filter(C.r > 2))
run("window_after_filter", lambda t,u: t >> filter(t.k>2) >> mutate(r=pdt.row_number(arrange=t.k), s2=t.x.sum()))
run("window_after_slice", lambda t,u: t >> arrange(t.k) >> slice_head(3) >> mutate(s2=t.x.sum()))
run("slice_slice", lambda t,u: t >> arrange(t.k) >> slice_head(5, offset=1) >> slice_head(2, offset=1))
run("slice_slice2", lambda t,u: t >> arrange(t.k) >> slice_head(3, offset=1) >> slice_head(5, offset=1))
run("slice_slice3", lambda t,u: t >> arrange(t.k) >> slice_head(3, offset=1) >> slice_head(5, offset=4))
run("slice_filter", lambda t,u: t >> arrange(t.k) >> slice_head(5) >> filter(t.x > 2))
run("slice_mutate", lambda t,u: t >> arrange(t.k) >> slice_head(5) >> mutate(z=t.x+1))
run("slice_arrange", lambda t,u: t >> arrange(t.k) >> slice_head(5) >> arrange(t.x.nulls_last()))
run("arr_arr", lambda t,u: t >> arrange(t.k) >> arrange(t.g.nulls_first()))
run("arr_desc_nf", lambda t,u: t >> arrange(t.x.descending().nulls_first(), t.k))
run("arr_desc_nl", lambda t,u: t >> arrange(t.x.descending().nulls_last(), t.k))
run("arr_nomark", lambda t,u: t >> arrange(t.x, t.k))
run("arr_nomark_desc", lambda t,u: t >> arrange(t.x.descending(), t.k))
run("join_inner", lambda t,u: t >> join(u, t.k == u.k, "inner"))
run("join_left", lambda t,u: t >> join(u, t.k == u.k, "left"))
run("join_full", lambda t,u: t >> join(u, t.k == u.k, "full"))
run("join_left_rfilter", lambda t,u: t >> join(u >> filter(u.y > 15), t.k == u.k, "left"))
run("join_ineq", lambda t,u: t >> join(u, t.k < u.k, "inner"))
run("join_ineq_left", lambda t,u: t >> join(u, (t.k == u.k) & (t.x < u.y), "left"))
run("join_str_on", lambda t,u: t >> join(u, "s", "inner"))
run("join_str_null", lambda t,u: t >> join(u, t.s == u.s, "left"))
run("cross", lambda t,u: t >> cross_join(u))
run("union", lambda t,u: t >> select(t.k, t.s) >> union(u >> select(u.s, u.k)))
run("union_distinct", lambda t,u: t >> select(t.s) >> union(u >> select(u.s), distinct=True))
run("union_arr", lambda t,u: t >> select(t.k, t.s) >> arrange(t.k) >> union(u >> select(u.s, u.k)))
run("union_then_filter", lambda t,u: t >> select(t.k, t.s) >> union(u >> select(u.s, u.k)) >> filter(C.k > 1))
run("union_mutated", lambda t,u: t >> mutate(z=t.k*2) >> select(C.z, t.s) >> union(u >> mutate(z=u.y) >> select(u.s, C.z)))
run("mutate_overwrite_ref", lambda t,u: t >> mutate(x=t.x+1, w=t.x*2) >> mutate(v=t.x, q=C.x))
run("select_rename", lambda t,u: t >> select(t.s, t.k) >> rename({"s":"k","k":"s"}) >> mutate(p=t.k, q=C.k))
run("group_mutate_agg", lambda t,u: t >> group_by(t.g) >> mutate(m=t.x.max()) >> ungroup() >> mutate(m2=t.x.max()))
run("agg_in_mutate_nested", lambda t,u: t >> mutate(m=t.x.max()) >> mutate(m2=C.m.min()))
run("two_summarize", lambda t,u: t >> group_by(t.g, t.s) >> summarize(a=t.x.sum()) >> group_by(C.g) >> summarize(b=C.a.sum()))
run("two_summarize_alias", lambda t,u: t >> group_by(t.g, t.s) >> summarize(a=t.x.sum()) >> alias() >> group_by(C.g) >> summarize(b=C.a.sum()))
run("rank", lambda t,u: t >> mutate(r=pdt.rank(arrange=t.x.nulls_last()), d=pdt.dense_rank(arrange=t.x.descending().nulls_first(), partition_by=t.g)))
run("cumsum", lambda t,u: t >> mutate(c=t.x.cum_sum(arrange=t.k), c2=t.x.cum_sum(arrange=t.k.descending(), partition_by=t.g)))
run("shift_fill", lambda t,u: t >> mutate(c=t.x.shift(2, -1, arrange=t.k), c2=t.x.shift(-1, arrange=t.k, partition_by=t.g)))
