import warnings; warnings.simplefilter("ignore")
import random, sys, collections
import polars as pl, sqlalchemy as sqa
import pydiverse.transform as pdt
from pydiverse.transform.extended import mutate, export, build_query, Polars, select, alias, C, join, filter, rename, group_by, summarize, arrange, ungroup, slice_head, union, drop
from pydiverse.transform._internal.errors import SubqueryError, NotSupportedError
seed = int(sys.argv[1]) if len(sys.argv)>1 else 0
rng = random.Random(seed)
def mk(n):
    ints=[-7,-3,-1,0,1,2,3,7,None]; fl=[-2.5,-0.75,0.0,0.5,1.5,2.25,None]; st=["a","b","ab","A","",None,"z"]; bo=[True,False,None]
    return pl.DataFrame({"k": list(range(1,n+1)), "g":[rng.choice([1,2,3,None]) for _ in range(n)], "x":[rng.choice(ints) for _ in range(n)], "y":[rng.choice(ints) for _ in range(n)],
        "f":[rng.choice(fl) for _ in range(n)], "s":[rng.choice(st) for _ in range(n)], "b":[rng.choice(bo) for _ in range(n)]},
        schema={"k":pl.Int64,"g":pl.Int64,"x":pl.Int64,"y":pl.Int64,"f":pl.Float64,"s":pl.String,"b":pl.Boolean})
eng = sqa.create_engine("sqlite://")
sqa.event.listen(eng, "connect", lambda c, r: c.execute("PRAGMA case_sensitive_like=ON"))
def tables(n):
    df = mk(n)
    df.write_database("t", eng, if_table_exists="replace", engine_options={"dtype":{"f":sqa.Double,"b":sqa.Boolean}})
    return pdt.Table(df, name="t"), pdt.Table("t", pdt.SqlAlchemy(eng))
def ord_(c, r):
    e = C[c]
    if r.random()<.4: e = e.descending()
    e = e.nulls_last() if r.random()<.5 else e.nulls_first()
    return e
def int_expr(r, d=0):
    c = r.random()
    if d>1 or c<.3: return C[r.choice(["x","y","g","k"])]
    if c<.4: return pdt.lit(r.choice([-2,-1,0,1,2,5])) + C.k*0
    if c<.6: return int_expr(r,d+1) + int_expr(r,d+1)
    if c<.7: return int_expr(r,d+1) * r.choice([2,-1,3])
    if c<.8: return pdt.coalesce(int_expr(r,d+1), int_expr(r,d+1))
    if c<.9: return pdt.when(bool_expr(r,d+1)).then(int_expr(r,d+1)).otherwise(int_expr(r,d+1))
    return pdt.max(int_expr(r,d+1), int_expr(r,d+1))
def bool_expr(r, d=0):
    c = r.random()
    if d>1 or c<.2: return C.b
    if c<.5: return int_expr(r,d+1) > int_expr(r,d+1)
    if c<.6: return int_expr(r,d+1) == int_expr(r,d+1)
    if c<.7: return bool_expr(r,d+1) & bool_expr(r,d+1)
    if c<.8: return bool_expr(r,d+1) | bool_expr(r,d+1)
    if c<.9: return ~bool_expr(r,d+1)
    return C[r.choice(["x","s","f"])].is_null()
def agg(r):
    c = r.random(); kw = {}
    if r.random()<.25: kw["filter"] = bool_expr(r,1)
    if c<.2: return int_expr(r,1).sum(**kw)
    if c<.35: return int_expr(r,1).min(**kw)
    if c<.5: return int_expr(r,1).max(**kw)
    if c<.6: return int_expr(r,1).mean(**kw)
    if c<.7: return int_expr(r,1).count(**kw)
    if c<.8: return pdt.count(**kw)
    if c<.9: return bool_expr(r,1).any(**kw)
    return bool_expr(r,1).all(**kw)
def win(r):
    c = r.random(); part = r.choice([None, "g", ["g","b"]])
    arr = [ord_(r.choice(["x","f","s"]), r), C.k]
    kw = {"arrange": arr}
    if part: kw["partition_by"] = part
    if c<.2: return pdt.row_number(**kw)
    if c<.4: return pdt.rank(**kw)
    if c<.55: return pdt.dense_rank(**kw)
    if c<.75: return C.x.shift(r.choice([-2,-1,1,2]), r.choice([None, 0, -9]), **kw)
    if c<.9: return C.x.cum_sum(**kw)
    kw.pop("arrange"); return agg_w(r, kw)
def agg_w(r, kw):
    return r.choice([lambda: C.x.sum(**kw), lambda: C.y.max(**kw), lambda: pdt.count(**kw), lambda: C.x.mean(**kw)])()
def build(nm, sd):
    r = random.Random(sd)
    if nm=="sfilter": return filter(C.a0 > r.choice([0,1,2]))
    if nm=="smutate": return mutate(z=C.a0 + 1)
    if nm=="sarrange": return arrange(C.a0.nulls_last())
    if nm=="filter": return filter(bool_expr(r))
    if nm=="mutate": return mutate(m=int_expr(r))
    if nm=="wmutate": return mutate(w=win(r))
    if nm=="arrange": return arrange(ord_(r.choice(["x","f","s","g"]), r), C.k)
    if nm=="slice": return slice_head(r.randint(0,6), offset=r.randint(0,3))
    if nm=="group_by": return group_by(*r.choice([["g"],["g","b"],["s"]]))
    if nm=="ungroup": return ungroup()
    if nm=="summarize": return summarize(a0=int_expr(r,1).sum() if r.random()<.5 else pdt.count(), a1=agg(r))
def gen(r):
    steps=[]; n = r.randint(1,5); state = {"grouped":False, "summ":False}
    for _ in range(n):
        c = r.random(); sd = r.randint(0,10**9)
        if state["summ"]: steps.append((r.choice(["sfilter","smutate","sarrange"]), sd)); continue
        if c<.2: steps.append(("filter", sd))
        elif c<.4: steps.append(("mutate", sd))
        elif c<.55: steps.append(("wmutate", sd))
        elif c<.65: steps.append(("arrange", sd))
        elif c<.75 and not state["grouped"]: steps.append(("slice", sd))
        elif c<.85 and not state["grouped"]: steps.append(("group_by", sd)); state["grouped"]=True
        elif c<.9 and state["grouped"]: steps.append(("ungroup", sd)); state["grouped"]=False
        else: steps.append(("summarize", sd)); state["summ"]=True; state["grouped"]=False
    if state["grouped"]: steps.append(("ungroup", 0))
    return steps
def gen_old(r):
    steps=[]; n = r.randint(1,5); state = {"grouped":False, "summ":False}
    for _ in range(n):
        c = r.random()
        if state["summ"]:
            steps.append(r.choice([("filter", lambda r=r: filter(C.a0 > r.choice([0,1,2]))), ("mutate", lambda: mutate(z=C.a0 + 1)), ("arrange", lambda: arrange(C.a0.nulls_last()))]))
            continue
        if c<.2: steps.append(("filter", (lambda e: (lambda: filter(e)))(bool_expr(r))))
        elif c<.4: steps.append(("mutate", (lambda e: (lambda: mutate(m=e)))(int_expr(r))))
        elif c<.55: steps.append(("wmutate", (lambda e: (lambda: mutate(w=e)))(win(r))))
        elif c<.65: steps.append(("arrange", (lambda a: (lambda: arrange(*a)))([ord_(r.choice(["x","f","s","g"]), r), C.k])))
        elif c<.75 and not state["grouped"]: steps.append(("slice", (lambda a,b: (lambda: slice_head(a, offset=b)))(r.randint(0,6), r.randint(0,3))))
        elif c<.85 and not state["grouped"]: steps.append(("group_by", lambda r=r: group_by(*r.choice([["g"],["g","b"],["s"]])))); state["grouped"]=True
        elif c<.9 and state["grouped"]: steps.append(("ungroup", lambda: ungroup())); state["grouped"]=False
        else:
            aggs = {f"a{i}": agg(r) for i in range(r.randint(1,2))}
            steps.append(("summarize", (lambda a: (lambda: summarize(**a)))(aggs))); state["summ"]=True; state["grouped"]=False
    if state["grouped"]: steps.append(("ungroup", lambda: ungroup()))
    return steps
stats = collections.Counter(); bad = []
for it in range(int(sys.argv[2]) if len(sys.argv)>2 else 400):
    r = random.Random(seed*100000+it)
    P, S = tables(r.choice([0,1,5,9,14]))
    steps = gen(r)
    outs = {}
    for lab, t in (("P",P),("S",S)):
        try:
            cur = t
            for nm, sd in steps: cur = cur >> build(nm, sd)
            outs[lab] = cur >> export(Polars())
        except (SubqueryError, NotSupportedError) as e: outs[lab] = type(e).__name__
        except Exception as e: outs[lab] = f"ERR {type(e).__name__}: {str(e)[:150]}"
    p, s = outs["P"], outs["S"]
    names = [n for n,_ in steps]
    if isinstance(p, pl.DataFrame) and isinstance(s, pl.DataFrame):
        key = lambda row: tuple((x is None, str(type(x)), x) for x in row)
        def norm(df): return sorted([tuple(round(float(v),6) if isinstance(v,(float,)) or str(type(v)).find("Decimal")>=0 else v for v in row) for row in df.rows()], key=key)
        ok = p.columns==s.columns and norm(p)==norm(s)
        stats["same" if ok else "DIFF"]+=1
        if not ok: bad.append((it, names, p.columns, s.columns))
    elif isinstance(s,str) and s in ("SubqueryError","NotSupportedError") and isinstance(p, pl.DataFrame): stats["sql_refused"]+=1
    else:
        stats["other"]+=1; bad.append((it, names, p if isinstance(p,str) else "ok", s if isinstance(s,str) else "ok"))
print(stats)
for b in bad[:40]: print(b)

print("=== details")
for sd, it in [(1,7),(1,33),(0,139),(0,247),(0,16)]:
    if sd != seed: continue
    r = random.Random(seed*100000+it)
    P, S = tables(r.choice([0,1,5,9,14]))
    steps = gen(r)
    for lab, t in (("P",P),("S",S)):
        cur = t
        for nm, s_ in steps: cur = cur >> build(nm, s_)
        print(it, lab, [n for n,_ in steps]); print(cur >> export(Polars()))
        if lab=="S": print(cur >> build_query())
