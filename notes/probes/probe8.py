import warnings; warnings.simplefilter("ignore")
import types as pytypes, itertools, collections, datetime
import polars as pl, sqlalchemy as sqa
import pydiverse.transform as pdt
from pydiverse.transform.extended import mutate, export, build_query, Polars
from pydiverse.transform._internal.ops import ops
from pydiverse.transform._internal.ops.op import Operator, Ftype
from pydiverse.transform._internal.ops.ops.markers import Marker
from pydiverse.transform._internal.tree import types as T
from pydiverse.transform._internal.tree.col_expr import ColFn
from pydiverse.transform._internal.errors import NotSupportedError, SubqueryError
from pydiverse.common import *
def fake():
    m = pytypes.ModuleType("fake"); m.paramstyle="pyformat"; m.__version__="2.9.9"; m.version="5.0.0"; m.apilevel="2.0"; m.threadsafety=1
    class Error(Exception): pass
    m.Error=Error; return m
engines = {"sqlite": sqa.create_engine("sqlite://"), "postgres": sqa.create_engine("postgresql+pg8000://", module=fake()), "mssql": sqa.create_engine("mssql+pymssql://", module=fake())}
coldefs = {"i": (sqa.BigInteger, Int64()), "i2": (sqa.BigInteger, Int64()), "f": (sqa.Double, Float64()), "f2": (sqa.Double, Float64()), "s": (sqa.String, String()), "s2": (sqa.String, String()), "b": (sqa.Boolean, Bool()), "b2": (sqa.Boolean, Bool()),
           "d": (sqa.Date, Date()), "d2": (sqa.Date, Date()), "dt": (sqa.DateTime, Datetime()), "dt2": (sqa.DateTime, Datetime()), "du": (sqa.Interval, Duration()), "du2": (sqa.Interval, Duration()), "tm": (sqa.Time, Time()), "tm2": (sqa.Time, Time())}
tables = {}
for n, e in engines.items():
    md = sqa.MetaData(); tb = sqa.Table("t", md, *(sqa.Column(c, ty[0]) for c, ty in coldefs.items()))
    tables[n] = pdt.Table(tb, pdt.SqlAlchemy(e), name="t")
pdf = pl.DataFrame({"i":[1,2],"i2":[3,4],"f":[1.5,2.5],"f2":[.5,.25],"s":["a","b"],"s2":["c","d"],"b":[True,False],"b2":[False,None],"d":[datetime.date(2020,1,1)]*2,"d2":[datetime.date(2021,1,1)]*2,
  "dt":[datetime.datetime(2020,1,1,1,1,1)]*2,"dt2":[datetime.datetime(2021,1,1)]*2,"du":[datetime.timedelta(1)]*2,"du2":[datetime.timedelta(2)]*2,"tm":[datetime.time(1,2,3)]*2,"tm2":[datetime.time(2)]*2})
tables["polars"] = pdt.Table(pdf, name="t")
print({c.name: str(c.dtype()) for c in tables["sqlite"]})
bytype = {Int(): ["i","i2"], Float(): ["f","f2"], String(): ["s","s2"], Bool(): ["b","b2"], Date(): ["d","d2"], Datetime(): ["dt","dt2"], Duration(): ["du","du2"], Time(): ["tm","tm2"]}
lits = {Int(): 2, Float(): 1.5, String(): "x", Bool(): True, Date(): datetime.date(2020,2,2), Datetime(): datetime.datetime(2020,2,2), Duration(): datetime.timedelta(hours=1), Time(): datetime.time(3)}
CONCRETE = list(bytype)
def inst(sig):
    # instantiate tyvars with each concrete type
    tys = list(sig.types)
    has_tv = any(isinstance(T.without_const(t), T.Tyvar) for t in tys)
    for sub in (CONCRETE if has_tv else [None]):
        yield [ (T.Const(sub) if T.is_const(t) else sub) if isinstance(T.without_const(t), T.Tyvar) else t for t in tys ]
res = collections.Counter(); ex = {}
for name, op in vars(ops).items():
    if not isinstance(op, Operator) or isinstance(op, Marker): continue
    for sig in op.signatures:
        for tys in inst(sig):
            if sig.is_vararg: tys = tys + [tys[-1]]
            for be, tbl in tables.items():
                try:
                    cnt = collections.Counter(); args=[]
                    for t in tys:
                        base = T.without_const(t)
                        if T.is_const(t): args.append(lits[base])
                        else:
                            c = bytype[base][cnt[base] % 2]; cnt[base]+=1; args.append(tbl[c])
                    kw = {}
                    if op.ftype == Ftype.WINDOW: kw["arrange"] = tbl.i
                    e = ColFn(op, *args, **kw)
                    q = tbl >> mutate(y=e)
                    if be == "polars": q >> export(Polars())
                    else:
                        s1 = q >> build_query(); s2 = q >> build_query()
                        assert s1 == s2, "nondeterministic"
                    res[(be,"ok")]+=1
                except NotSupportedError as e_:
                    res[(be,"NotSupported")]+=1; ex.setdefault((be,"NS",name), str(e_)[:80])
                except Exception as e_:
                    k=(be, type(e_).__name__); res[k]+=1; ex.setdefault((be,type(e_).__name__,name, tuple(map(str,tys))), str(e_).replace("\n"," ")[:160])
print(res)
for k,v in ex.items():
    if k[1]!="NS": print(k, v)
print([k for k in ex if k[1]=="NS"])
