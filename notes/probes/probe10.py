import warnings; warnings.simplefilter("ignore")
import polars as pl, sqlalchemy as sqa, datetime
import pydiverse.transform as pdt
from pydiverse.transform.extended import mutate, export, build_query, Polars, select, alias, collect, C, join, filter, rename, group_by, summarize, arrange, ungroup, slice_head, union, drop, left_join, columns
from pydiverse.transform import Pandas, Dict, DictOfLists, ListOfDicts, Scalar, transfer_col_references
df = pl.DataFrame({"k":[1,2,3], "g":[1,1,2], "x":[5,None,3], "s":["a","b","a"]})
eng = sqa.create_engine("sqlite://"); df.write_database("t", eng, if_table_exists="replace")
P = pdt.Table(df, name="t"); S = pdt.Table("t", pdt.SqlAlchemy(eng))
def tryit(name, f):
    for lab,t in (("P",P),("S",S)):
        try:
            r = f(t); 
            if isinstance(r, pdt.Table): r = (r >> export(Polars())).rows()
            print(f"{name:26} {lab} -> {r}")
        except Exception as e: print(f"{name:26} {lab} -> {type(e).__name__}: {str(e)[:90]}")
tryit("alias_selfjoin", lambda t: t >> join(a := t >> mutate(z=t.x*2) >> select(t.k, C.z) >> alias("a"), t.k == a.k, "inner") >> select(t.k, a.z))
tryit("alias_old_ref", lambda t: t >> alias() >> mutate(y=t.x))
tryit("alias_keep_ref", lambda t: t >> rename({"x":"xx"}) >> alias(keep_col_refs=True) >> mutate(y=t.x) >> select(C.y))
tryit("alias_hidden_ref", lambda t: t >> select(t.k) >> alias(keep_col_refs=True) >> mutate(y=t.x) >> select(C.y))
tryit("alias_new_ref_hidden", lambda t: (a := t >> select(t.k) >> alias()) >> mutate(y=a.k) >> select(C.y))
tryit("alias_twice", lambda t: (b := (a := t >> alias()) >> alias()) >> mutate(y=b.x) >> select(C.y))
tryit("alias_twice_oldref", lambda t: (b := (a := t >> alias()) >> alias()) >> mutate(y=a.x) >> select(C.y))
tryit("alias_grouped", lambda t: t >> group_by(t.g) >> alias() >> summarize(n=pdt.count()))
tryit("collect_ref", lambda t: t >> rename({"x":"xx"}) >> mutate(z=t.k+1) >> collect() >> mutate(y=t.x) >> select(C.y) if t is P else "skip")
tryit("collect_hidden_ref", lambda t: t >> select(t.k) >> collect() >> mutate(y=t.x) if t is P else "skip")
tryit("collect_grouped", lambda t: t >> group_by(t.g) >> collect() >> summarize(n=pdt.count()) if t is P else "skip")
tryit("collect_nokeep", lambda t: t >> collect(keep_col_refs=False) >> mutate(y=t.x) if t is P else "skip")
tryit("transfer", lambda t: transfer_col_references(pdt.Table((t >> filter(t.k>1) >> export(Polars()))) if t is P else t >> filter(t.k>1) >> alias(), t) >> mutate(y=t.x+1) >> select(C.y))
tryit("derived_name", lambda t: (t >> rename({"x":"xx"}))[t.x].name)
tryit("derived_name_hidden", lambda t: (t >> select(t.k))[t.x].name)
tryit("summarize_drop_ref", lambda t: t >> group_by(t.g) >> summarize(n=pdt.count()) >> mutate(y=t.x))
tryit("summarize_group_ref", lambda t: t >> group_by(t.g) >> summarize(n=pdt.count()) >> mutate(y=t.g) >> select(C.y))
tryit("join_suffixed_ref", lambda t: t >> join(a := t >> alias("a"), t.k == a.k, "left") >> mutate(y=a.x, n=C.x_a) >> select(C.y, C.n))
tryit("rename_onto_hidden", lambda t: t >> select(t.k, t.g) >> rename({"g":"x"}) >> mutate(p=t.x, q=C.x, r=t.g) >> select(C.p, C.q, C.r))
tryit("overwrite_recreate", lambda t: t >> mutate(x=t.x+100) >> mutate(old=t.x, new=C.x) >> select(C.old, C.new))
tryit("swap", lambda t: t >> rename({"k":"g","g":"k"}) >> mutate(a=t.k, b=C.k) >> select(C.a, C.b))
# C20
t = P >> mutate(z=P.x*2)
print(t >> export(Polars(lazy=True)), (t >> export(Polars(lazy=True))).collect().equals(t >> export(Polars())))
print(t >> export(Pandas()))
print(t >> export(DictOfLists()), t >> export(ListOfDicts())); print(t >> slice_head(1) >> export(Dict())); print(t >> slice_head(1) >> select(C.z) >> export(Scalar()))
print((P.x*2).export(Polars()), (P.x).export(Pandas()))
try: print((S.x*2).export(Polars()))
except Exception as e: print("S colexport", type(e).__name__, e)
try: print(S >> export(Pandas()))
except Exception as e: print("S pandas", type(e).__name__, e)
try: print(S >> export(Polars(lazy=True)))
except Exception as e: print("S lazy", type(e).__name__, e)
