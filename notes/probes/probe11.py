import sys, time
sys.path.insert(0, "/tmp/depsprobe")
import icontract, deal
print("icontract", icontract.__version__, "deal", deal.__version__)
import pydiverse.transform as pdt
from pydiverse.transform.extended import *
from pydiverse.transform._internal.pipe.cache import Cache
from pydiverse.transform._internal.backend.sql import SqlImpl
mon = sys.monitoring
TOOL = 3
mon.use_tool_id(TOOL, "pdtmon")
events = []
def on_start(code, off):
    f = sys._getframe(1)
    if code is Cache.requires_subquery.__code__:
        events.append(("requires_subquery.start", type(f.f_locals["node"]).__name__, f.f_locals["self"].limit))
def on_return(code, off, retval):
    if code is Cache.requires_subquery.__code__:
        events.append(("requires_subquery.ret", retval))
mon.register_callback(TOOL, mon.events.PY_START, on_start)
mon.register_callback(TOOL, mon.events.PY_RETURN, on_return)
for fn in (Cache.requires_subquery, Cache.update):
    mon.set_local_events(TOOL, fn.__code__, mon.events.PY_START | mon.events.PY_RETURN)
import polars as pl, sqlalchemy as sqa
df = pl.DataFrame({"k":[1,2,3]}); eng = sqa.create_engine("sqlite://"); df.write_database("t", eng)
S = pdt.Table("t", pdt.SqlAlchemy(eng))
try: S >> slice_head(2) >> filter(S.k > 1)
except Exception as e: print(type(e).__name__)
print(events)
# sqlalchemy statement trace
stmts=[]
sqa.event.listen(eng, "before_cursor_execute", lambda conn, cur, stmt, params, ctx, many: stmts.append(stmt))
S >> mutate(y=S.k+1) >> export(Polars())
print(stmts)
