import warnings; warnings.simplefilter("ignore")
import polars as pl, sqlalchemy as sqa
import pydiverse.transform as pdt
from pydiverse.transform.extended import *
strs = ["a'b", 'a"b', "a\\b", "100%", "a_b", "--x", "; DROP TABLE t;", "a\nb", "é€", "", " ", "/", "a/b", "%", "_", "\\%", "[a]", "^", "$", ".", "a.b", "x*", "(", "\\", "'", "''", "%%", "ab", "AB", "a\tb", "\x00z" ]
df = pl.DataFrame({"s": strs + [None], "k": list(range(len(strs)+1))})
eng = sqa.create_engine("sqlite://")
sqa.event.listen(eng, "connect", lambda c, r: c.execute("PRAGMA case_sensitive_like=ON"))
df.write_database("t", eng, if_table_exists="replace")
P = pdt.Table(df, name="t"); S = pdt.Table("t", pdt.SqlAlchemy(eng))
def cmp(name, fn):
    out=[]
    for t in (P,S):
        try: out.append((t >> mutate(y=fn(t)) >> arrange(t.k) >> select(C.y) >> export(Polars()))["y"].to_list())
        except Exception as e: out.append(f"{type(e).__name__}: {str(e)[:150]}")
    if out[0]!=out[1]:
        if isinstance(out[0],list) and isinstance(out[1],list):
            diffs=[(strs[i] if i<len(strs) else None,a,b) for i,(a,b) in enumerate(zip(*out)) if a!=b]
            print("DIFF", name, diffs[:6])
        else: print("DIFF", name, out[0] if isinstance(out[0],str) else "ok", "|", out[1] if isinstance(out[1],str) else "ok")
n=0
for lit in strs:
    for opname, f in {
        "eq": lambda t: t.s == lit, "isin": lambda t: t.s.is_in(lit, "zzz"), "concat": lambda t: t.s + lit, "concat_l": lambda t: pdt.lit(lit) + t.s,
        "sw": lambda t: t.s.str.starts_with(lit), "ew": lambda t: t.s.str.ends_with(lit), "cont": lambda t: t.s.str.contains(lit, allow_regex=False),
        "repl": lambda t: t.s.str.replace_all(lit, "<" + lit + ">") , "case": lambda t: pdt.when(t.s == lit).then(lit).otherwise("no"), "const": lambda t: pdt.lit(lit),
        "map": lambda t: t.s.map({lit: "hit"}, default="miss"), "fill": lambda t: t.s.fill_null(lit),
    }.items():
        n+=1
        cmp(f"{opname}[{lit!r}]", f)
print("n", n)
