import sys, time, warnings; warnings.simplefilter("ignore")
import polars as pl, sqlalchemy as sqa
import pydiverse.transform as pdt
from pydiverse.transform.extended import *
from pydiverse.transform._internal.pipe.cache import Cache
from pydiverse.transform._internal.pipe import pipeable, verbs as pv
from pydiverse.transform._internal.backend import sql, polars as pol, table_impl
from pydiverse.transform._internal.tree import verbs as tv
from pydiverse.transform._internal.ops import signature
df = pl.DataFrame({"k":list(range(50)), "g":[i%3 for i in range(50)], "x":[i*2 for i in range(50)]})
eng = sqa.create_engine("sqlite://"); df.write_database("t", eng)
P = pdt.Table(df, name="t"); S = pdt.Table("t", pdt.SqlAlchemy(eng))
def work(n):
    for i in range(n):
        for t in (P,S):
            r = t >> mutate(y=t.x+i, z=pdt.when(t.k>3).then(t.x).otherwise(0)) >> filter(t.k > 2) >> group_by(t.g) >> summarize(s=C.y.sum(), m=C.z.max()) >> arrange(C.g)
            r >> export(Polars())
work(20)
t0=time.time(); work(150); base=time.time()-t0
mon = sys.monitoring; TOOL=3; mon.use_tool_id(TOOL,"x"); cnt=[0]
def on_start(code, off): cnt[0]+=1; f=sys._getframe(1); f.f_locals
def on_ret(code, off, rv): cnt[0]+=1
mon.register_callback(TOOL, mon.events.PY_START, on_start); mon.register_callback(TOOL, mon.events.PY_RETURN, on_ret)
targets = [Cache.update, Cache.requires_subquery, Cache.from_ast, pipeable.check_subquery, pv.preprocess_arg, tv.Verb._clone, tv.Alias._clone, tv.Join._clone, sql.SqlImpl.compile_ast.__func__, sql.SqlImpl.compile_query.__func__, sql.SqlImpl.export.__func__, pol.PolarsImpl.export, pol.compile_ast, signature.best_signature_match, signature.SignatureTrie.best_match, table_impl.TableImpl.get_impl.__func__]
for fn in targets: mon.set_local_events(TOOL, fn.__code__, mon.events.PY_START|mon.events.PY_RETURN)
t0=time.time(); work(150); m=time.time()-t0
print(f"base {base:.2f}s monitored {m:.2f}s overhead {100*(m/base-1):.1f}% events {cnt[0]} per pipeline-export {base/300*1000:.1f} ms")
