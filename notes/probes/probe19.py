import warnings; warnings.simplefilter("ignore")
import polars as pl, sqlalchemy as sqa, traceback
import pydiverse.transform as pdt
from pydiverse.transform.extended import *
df = pl.DataFrame({"k":[1,2,3,4], "x":[5,None,3,3]}); df2 = pl.DataFrame({"k":[1,2,2,9,None], "y":[10,20,21,90,0]})
eng = sqa.create_engine("sqlite://"); df.write_database("t", eng); df2.write_database("u", eng)
t = pdt.Table("t", pdt.SqlAlchemy(eng)); u = pdt.Table("u", pdt.SqlAlchemy(eng))
for nm, f in {"both": lambda: t >> group_by(t.k) >> summarize(n=pdt.count()) >> alias() >> union(u >> group_by(u.k) >> summarize(n=pdt.count()) >> alias()),
              "right_only_summ_alias": lambda: t >> select(t.k) >> union(u >> group_by(u.k) >> summarize(n=pdt.count()) >> select(C.k) >> alias()),
              "left_only": lambda: t >> group_by(t.k) >> summarize(n=pdt.count()) >> alias() >> union(u >> select(u.k) >> mutate(n=1)),
              "right_summ_noalias": lambda: t >> select(t.k) >> mutate(n=1) >> union(u >> group_by(u.k) >> summarize(n=pdt.count()))}.items():
    try:
        q = f(); print(nm, "accepted"); print((q >> export(Polars())).shape)
    except Exception as e:
        print(nm, type(e).__name__, str(e)[:100]); tb = traceback.extract_tb(e.__traceback__)[-1]; print("   at", tb.filename.split('/')[-1], tb.lineno, tb.line)
