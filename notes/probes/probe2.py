import types, sys, warnings
import sqlalchemy as sqa
import pydiverse.transform as pdt
from pydiverse.transform.extended import *

def fake_dbapi(name, **attrs):
    m = types.ModuleType(name)
    m.paramstyle = "pyformat"
    m.__version__ = "2.9.9"
    m.version = "5.0.0"
    m.apilevel = "2.0"
    m.threadsafety = 1
    class Error(Exception): pass
    m.Error = Error
    for k,v in attrs.items(): setattr(m,k,v)
    return m

for url in ["postgresql+psycopg2://", "mssql+pyodbc://", "postgresql+pg8000://", "mssql+pymssql://", "db2+ibm_db://", "duckdb://"]:
    try:
        eng = sqa.create_engine(url, module=fake_dbapi("fake"))
        print(url, "OK", eng.dialect.name, type(eng))
        md = sqa.MetaData()
        tb = sqa.Table("t", md, sqa.Column("a", sqa.BigInteger), sqa.Column("b", sqa.String), sqa.Column("f", sqa.Double), sqa.Column("c", sqa.Boolean), sqa.Column("d", sqa.DateTime))
        t = pdt.Table(tb, pdt.SqlAlchemy(eng), name="t")
        q = t >> mutate(x=t.a // 2 + 1, y=t.b.str.contains("a%"), z=pdt.when(t.c).then(t.f).otherwise(1.5)) >> filter(t.c | (t.a > 3)) >> arrange(t.a.nulls_last().descending()) >> slice_head(3, offset=2)
        print(q >> build_query())
    except Exception as e:
        print(url, "FAIL", type(e).__name__, str(e)[:300])
