import warnings; warnings.simplefilter("ignore")
import polars as pl, sqlalchemy as sqa
import pydiverse.transform as pdt
from pydiverse.transform.extended import *
from datetime import date, datetime
df = pl.DataFrame({
 "i":[7,-7,0,None,3,-3,65,-65],
 "j":[2,2,-5,4,None,-2,7,-7],
 "f":[1.5,-1.5,0.0,None,2.25,-0.75,1e10,-2.5],
 "g":[0.5,None,-3.0,4.0,2.5,-2.5,3.0,0.5],
 "b":[True,False,None,True,False,None,True,False],
 "c":[True,None,False,False,True,None,None,True],
 "s":["a","B",None,"","a b","%_","é","'q"],
 "t":["a","b","x",None,"A B","_","e","q'"],
 "d":[date(2020,1,1),None,date(1999,12,31),date(2024,2,29),date(2020,1,1),date(1970,1,1),date(2001,3,4),date(2010,10,10)],
 "dt":[datetime(2020,1,1,1,2,3),None,datetime(1999,12,31,23,59,59,123456),datetime(2024,2,29),datetime(2020,1,1),datetime(1970,1,1),datetime(2001,3,4,5,6,7),datetime(2010,10,10,10,10,10)],
})
eng = sqa.create_engine("sqlite://")
df.write_database("t", eng, if_table_exists="replace", engine_options={"dtype":{"f":sqa.Double,"g":sqa.Double}})
P = pdt.Table(df, name="t"); S = pdt.Table("t", pdt.SqlAlchemy(eng))
print({c.name: c.dtype() for c in S})
exprs = {
 "fd": lambda t: t.i // t.j, "md": lambda t: t.i % t.j, "td": lambda t: t.i / t.j, "fdl": lambda t: t.i // 2, "mdl": lambda t: t.i % -3,
 "add": lambda t: t.i + t.f, "pow": lambda t: t.j ** 2, "powf": lambda t: t.g ** 2.0,
 "and": lambda t: t.b & t.c, "or": lambda t: t.b | t.c, "xor": lambda t: t.b ^ t.c, "inv": lambda t: ~t.b,
 "eq": lambda t: t.s == t.t, "lt": lambda t: t.s < t.t, "isin": lambda t: t.i.is_in(7, None, 3), "isin2": lambda t: t.s.is_in("a","%_"),
 "coal": lambda t: pdt.coalesce(t.i, t.j), "hmax": lambda t: pdt.max(t.i, t.j, 1), "hmin": lambda t: pdt.min(t.f, t.g),
 "hsum": lambda t: pdt.sum(t.i, t.j), "hany": lambda t: pdt.any(t.b, t.c), "hall": lambda t: pdt.all(t.b, t.c),
 "clip": lambda t: t.i.clip(-3, 5), "abs": lambda t: t.f.abs(), "round": lambda t: t.f.round(1), "round0": lambda t: t.g.round(), "roundm": lambda t: t.f.round(-1),
 "floor": lambda t: t.f.floor(), "ceil": lambda t: t.f.ceil(),
 "case": lambda t: pdt.when(t.i > 3).then(t.j).when(t.i < 0).then(-1).otherwise(None),
 "case2": lambda t: pdt.when(t.b).then(1.5).otherwise(t.i),
 "map": lambda t: t.i.map({7:1, (0,3):2}, default=None),
 "map2": lambda t: t.i.map({7:70}),
 "fill": lambda t: t.i.fill_null(t.j), "isnull": lambda t: t.s.is_null(),
 "c_f2i": lambda t: t.f.cast(pdt.Int64()), "c_b2i": lambda t: t.b.cast(pdt.Int64()), "c_i2f": lambda t: t.i.cast(pdt.Float64()),
 "c_i2s": lambda t: t.i.cast(pdt.String()), "c_f2s": lambda t: t.f.cast(pdt.String()), "c_d2s": lambda t: t.d.cast(pdt.String()), "c_dt2s": lambda t: t.dt.cast(pdt.String()),
 "c_dt2d": lambda t: t.dt.cast(pdt.Date()), "c_d2dt": lambda t: t.d.cast(pdt.Datetime()),
 "badd": lambda t: t.b + t.c, "slen": lambda t: t.s.str.len(), "sup": lambda t: t.s.str.upper(), "sadd": lambda t: t.s + t.t,
 "ssw": lambda t: t.s.str.starts_with("a"), "scont": lambda t: t.s.str.contains("%", allow_regex=False), "srep": lambda t: t.s.str.replace_all("a","'x"),
 "sslice": lambda t: t.s.str.slice(1,2), "yr": lambda t: t.dt.dt.year(), "dow": lambda t: t.d.dt.day_of_week(), "neg": lambda t: -t.i,
 "i2f_impl": lambda t: t.i + 1.5, "cmp_if": lambda t: t.i < t.f,
}
for name, fn in exprs.items():
    res = {}
    for lab, t in (("P",P),("S",S)):
        try:
            e = fn(t)
            res[lab] = (str(e.dtype()), (t >> mutate(y=e) >> select(C.y) >> export(Polars()))["y"])
        except Exception as ex:
            res[lab] = ("ERR", f"{type(ex).__name__}: {str(ex)[:120]}")
    p, s = res["P"], res["S"]
    same = None
    if p[0]!="ERR" and s[0]!="ERR":
        same = p[1].to_list()==s[1].to_list()
    print(f"{name:8} same={same} P[{p[0]}/{getattr(p[1],'dtype',None)}]={p[1].to_list() if p[0]!='ERR' else p[1]}")
    if same is not True:
        print(f"{'':8}            S[{s[0]}/{getattr(s[1],'dtype',None)}]={s[1].to_list() if s[0]!='ERR' else s[1]}")
