"""Reproductions, in pure Polars (no pydiverse.transform involved), of the engine bugs that the harness
excludes from judgement (DESIGN section 4, D16 / D18 / D20).  Run: /venv/bin/python notes/polars_bugs.py"""
import collections

import polars as pl

# D16: horizontal min/max over a column that originates from a literal returns a length-1 series
lf = pl.LazyFrame({"k": [1, 2, 3, 4]}).with_columns(w=pl.lit(-3, dtype=pl.Int64))
try:
    lf.sort([pl.min_horizontal(pl.col("w"), pl.col("w"))], descending=[True], nulls_last=[True], maintain_order=True).collect()
    print("D16 not reproduced")
except Exception as e:
    print("D16:", type(e).__name__, str(e)[:90])


# D18: the optimizer drops the order-restoring sort_by after cum_sum when the frame is joined later
def build(df):
    lf = df.lazy().group_by("b").agg(s=pl.col("f").mean())
    inv = pl.int_range(0, pl.len(), dtype=pl.Int64()).sort_by(by=[pl.col("s")], descending=[False], nulls_last=[True])
    y = pl.col("s").sort_by(by=[pl.col("s")], descending=[False], nulls_last=[True]).cum_sum().fill_null(strategy="forward").sort_by(inv)
    lf = lf.with_columns(y=y).rename({"s": "s:old"}).with_columns(s=pl.lit(-65, dtype=pl.Int64))
    r = pl.LazyFrame({"k_u": [1], "x_u": [-286]})
    return lf.join(r, left_on=[pl.col("s")], right_on=[pl.col("x_u")], how="full", coalesce=False).select("b", "y")


c = collections.Counter()
for _ in range(200):
    c[tuple(sorted((r for r in build(pl.DataFrame({"b": [False, None], "f": [-2.5, 1.25]})).collect().rows() if r[1] is not None), key=str))] += 1
print("D18: distinct results of one deterministic query:", dict(c))


a = pl.LazyFrame({"x": [1], "k": [1]})
b = pl.LazyFrame({"k2": [1]})
try:
    a.join(b, left_on=[pl.col("x"), pl.col("k")], right_on=[pl.col("k2"), pl.col("k2")], how="inner", coalesce=False).collect()
    print("D20 not reproduced with this shape")
except BaseException as e:  # noqa: BLE001
    print("D20:", type(e).__name__, str(e)[:90])


# D16 (third trigger): literal <op> when(col).then(lit).otherwise(lit) returns a length-1 series if the condition column is uniform
for data in ([True, False], [True, True], [None, None]):
    df = pl.DataFrame({"m": data}, schema={"m": pl.Boolean})
    try:
        df.with_columns(w=pl.lit("a%") == pl.when(pl.col("m")).then(pl.lit("q")).otherwise(pl.lit("b'c")))
        print("D16c:", data, "ok")
    except Exception as e:  # noqa: BLE001
        print("D16c:", data, type(e).__name__, str(e)[:70].replace("\n", " "))


# D22: inside a filter predicate the optimizer rewrites `e & ~e` to false also below xor / is_null, where null != false
df = pl.DataFrame({"b": [None, True, False], "f": [0.0, 1.0, None]}, schema={"b": pl.Boolean, "f": pl.Float64})
for name, e in {"(~b & b) ^ (f == f)": ((~pl.col("b")) & pl.col("b")) ^ (pl.col("f") == pl.col("f")),
                "((f != f) & (f == f)).is_null()": ((pl.col("f") != pl.col("f")) & (pl.col("f") == pl.col("f"))).is_null()}.items():
    a = df.lazy().filter(e).collect().rows()
    b = df.lazy().filter(e).collect(optimizations=pl.QueryOptFlags.none()).rows()
    print("D22:", name, "optimized:", a, "unoptimized:", b)


# D16 (fourth trigger): horizontal max with a literal inside group_by().agg() over a column in which a join repeated one row
l = pl.DataFrame({"s": ["a", "a"]})
r = pl.DataFrame({"s_x": ["a"], "g_x": [2], "x_x": [651]})
try:
    l.lazy().join(r.lazy(), left_on="s", right_on="s_x").group_by("x_x").agg(u=pl.max_horizontal(pl.lit(2), pl.col("g_x")).sum()).collect()
    print("D16d not reproduced")
except Exception as e:  # noqa: BLE001
    print("D16d:", type(e).__name__, str(e)[:80])


# D16 (fifth trigger): `lit <cmp> scalar column` (constant column / unpartitioned aggregate) is a length-1 series:
# ShapeError at top level, a wrong aggregate below .over(); `scalar column <cmp> lit` is right
base = pl.DataFrame({"k": [1, 2]}).with_columns(n2=pl.col("k").filter(pl.col("k") > 5).sum() * pl.lit(None).cast(pl.Int64))
left = pl.lit(-3, dtype=pl.Int64) == pl.col("n2")
right = pl.col("n2") == pl.lit(-3, dtype=pl.Int64)
try:
    base.with_columns(z=left)
    print("D16e not reproduced")
except Exception as e:  # noqa: BLE001
    print("D16e:", type(e).__name__, str(e)[:70].replace("\n", " "))
for nm, c in (("lit == col", left), ("col == lit", right)):
    z = pl.when(c.count() == 0).then(pl.lit(None).cast(pl.Boolean)).otherwise(c.all()).over("n2")
    print("D16e:", nm, "under .over():", base.with_columns(z=z).get_column("z").to_list(), "(null expected: the comparison is null in every row)")


# D23: common subexpression elimination conflates literal series that are empty / all null but of different dtypes
df = pl.DataFrame({"k": [1, 2]})
zi = pl.Series("z", [None, None], dtype=pl.Int64)
zf = pl.Series("w", [None, None], dtype=pl.Float64)
lf = df.lazy().with_columns((pl.lit(zi) + pl.lit(zi)).alias("a"), (pl.lit(zf) + pl.lit(zf)).alias("b"))
print("D23: optimized:", dict(lf.collect().schema), "unoptimized:", dict(lf.collect(optimizations=pl.QueryOptFlags.none()).schema))

# D16e inside group_by().agg(): the length-1 comparison result makes the aggregation panic when the group has more than 8 rows
try:
    c = pl.lit("é") == pl.col("cg")
    r = pl.DataFrame({"k": list(range(10))}).lazy().with_columns(cg=pl.lit("c")).group_by("cg").agg(w=pl.when(c.count() == 0).then(None).otherwise(c.any())).collect()
    print("D16e (agg): no panic:", r.rows())
except BaseException as e:  # noqa: BLE001  (pyo3 PanicException)
    print("D16e (agg):", type(e).__name__, str(e)[:80])


# D24: shift(fill_value=<wider literal>) - the lazy schema keeps the narrow type, the data is widened; later operators panic
df = pl.DataFrame({"i32": [5, -4]}, schema={"i32": pl.Int32})
lf = df.lazy().with_columns(q=pl.col("i32").shift(1, fill_value=pl.lit(-3, dtype=pl.Int64)))
print("D24: lazy schema:", lf.collect_schema()["q"], "data:", lf.collect().schema["q"])
try:
    lf.with_columns(z=pl.col("q") // pl.col("i32")).collect()
    print("D24: no panic")
except BaseException as e:  # noqa: BLE001
    print("D24:", type(e).__name__, str(e)[:80])
